"""
Simulated user parties (DESIGN.md 3.5 / 3.6): items, streams (sources), callables.

A *plan* is pure data produced by a workload generator from the scenario stream.  A plan
is instantiated in a *World*: the async world lives inside a ``Sim`` (parties may suspend),
the reference world is synchronous and feeds the real stdlib function.  Both worlds write the
same kind of event log and share the very same item and exception objects.
"""

import asyncio
import collections.abc
import decimal
import fractions
import functools
import weakref

from .loop import PAUSE, SLEEP
from .vclock import VCLOCK


# --------------------------------------------------------------------------- items
class Item:
    """Ordered and equal by ``key`` only: ties are equal-but-distinguishable (``uid``)"""

    __slots__ = ("key", "uid", "truth", "__weakref__")

    def __init__(self, key, uid, truth=True):
        self.key = key
        self.uid = uid
        self.truth = truth

    def __lt__(self, other):
        if type(other) is Item:
            # a rich comparison may answer with any truth value (C-style 0 / 1, numpy.bool_ ...): some items do
            r = self.key < other.key
            return r if (type(self.uid) is not int or self.uid % 3) else int(r)
        return NotImplemented

    # only ``<`` and ``==`` are defined - all that the stdlib's sorting, heap and min/max functions ever use
    # (``a > b`` falls back to the reflected ``b < a``; ``<=`` and ``>=`` do not exist)

    def __eq__(self, other):
        if type(other) is Item:
            return self.key == other.key
        return NotImplemented

    def __ne__(self, other):
        if type(other) is Item:
            return self.key != other.key
        return NotImplemented

    def __hash__(self):
        return hash(self.key)

    def __bool__(self):
        return self.truth

    def __add__(self, other):
        if type(other) is Item:
            return Item(self.key + other.key, ("add", self.uid, other.uid))
        if type(other) is int:
            return Item(self.key + other, ("add", self.uid, other))
        return NotImplemented

    def __radd__(self, other):
        if type(other) is int:
            return Item(other + self.key, ("radd", other, self.uid))
        return NotImplemented

    def __repr__(self):
        return "I%r#%r%s" % (self.key, self.uid, "" if self.truth else "f")


class Entity:
    """A plain object without __eq__: identity is its equality"""

    __slots__ = ("n",)

    def __init__(self, n):
        self.n = n

    def __repr__(self):
        return "Entity%d" % self.n


_ENTITIES = tuple(Entity(n) for n in range(8))


class PairIterable:
    """A (key, value) pair that can be iterated - so it unpacks - but not indexed"""

    __slots__ = ("k", "v")

    def __init__(self, k, v):
        self.k = k
        self.v = v

    def __iter__(self):
        return iter((self.k, self.v))


class TolerantKey:
    """
    A key whose equality is reflexive and symmetric but not transitive (equal when at most 1 apart), and that only
    knows how to compare itself with its own kind (``other.v`` - a foreign object makes ``==`` raise)
    """

    __slots__ = ("v",)

    def __init__(self, v):
        self.v = v

    def __eq__(self, other):
        return abs(self.v - other.v) <= 1

    __hash__ = None

    def __repr__(self):
        return "Tol(%r)" % (self.v,)


class AwaitableItem:
    """
    An *item* that happens to be awaitable (a future to pass on, a job handle): data like any other item, equal
    only to itself.  Nobody is asked to await it; whoever does gets a marker and is seen by the loop.
    """

    __slots__ = ("uid", "__weakref__")

    def __init__(self, uid):
        self.uid = uid

    def __await__(self):
        yield ("item-awaited-by-the-library", self.uid)
        return ("awaited-item", self.uid)

    def __repr__(self):
        return "AW#%r" % (self.uid,)


class Unorderable:
    """An item that makes comparisons raise TypeError, like mixing str and int"""

    __slots__ = ("uid", "__weakref__")

    def __init__(self, uid):
        self.uid = uid

    def __repr__(self):
        return "U#%r" % (self.uid,)


class Ambiguous(Unorderable):
    """An item whose truth value cannot be taken, like an array of several elements"""

    __slots__ = ()

    def __bool__(self):
        raise ValueError("the truth value of this item is ambiguous")

    def __repr__(self):
        return "A#%r" % (self.uid,)


class Anything:
    """An item that answers True to every ``==`` (a wildcard like ``unittest.mock.ANY``): data like any other"""

    __slots__ = ("uid", "__weakref__")

    def __init__(self, uid):
        self.uid = uid

    def __eq__(self, other):
        return True

    def __ne__(self, other):
        return False

    def __hash__(self):
        return 1

    def __repr__(self):
        return "ANY#%r" % (self.uid,)


def ident(x):
    """Deterministic identity of a value: the uid for items, structure for containers"""
    t = type(x)
    if t is Anything:
        return ("anything", x.uid)
    if t is Item or t is Unorderable or t is Ambiguous:
        return x.uid
    if t is tuple:
        return ("t",) + tuple([ident(e) for e in x])
    if t is list:
        return ("l",) + tuple([ident(e) for e in x])
    if t is int or t is float or t is bool or t is str or x is None:
        return (t.__name__, repr(x))
    if t is dict:
        return ("d",) + tuple([(ident(k), ident(v)) for k, v in x.items()])
    if t is set or t is frozenset:
        return ("s",) + tuple(sorted([repr(ident(e)) for e in x]))
    if isinstance(x, BaseException):
        return ("exc", t.__name__, getattr(x, "tag", None))
    if t is DataAwaitable:
        return ("data_awaitable", x.name)
    if t is AwaitableItem:
        return ("awaitable_item", x.uid)
    if t is TolerantKey:
        return ("tol", x.v)
    if t is Entity:
        return ("entity", x.n)
    if t is decimal.Decimal or t is fractions.Fraction:
        return (t.__name__, str(x))
    if t is PairIterable:
        return ("pair_iterable", ident(x.k), ident(x.v))
    if isinstance(x, ResultObject):
        return ("instance_of", ident(x.value))
    return ("o", t.__name__)


_DERIVED = frozenset(("f", "add", "radd"))


def is_source_item(x):
    """An item object created by the scenario (not derived by a callable or ``+``)"""
    if type(x) is not Item:
        return False
    uid = x.uid
    return type(uid) is int or uid[0] not in _DERIVED


def keyof(x):
    return x.key if type(x) is Item else x


# --------------------------------------------------------------------------- exceptions
class InjectedFault(Exception):
    def __init__(self, tag):
        Exception.__init__(self, tag)
        self.tag = tag


class SourceReadError(Exception):
    """What a translating generator source raises for anything thrown in at its yield"""


class InjectedBase(BaseException):
    def __init__(self, tag):
        BaseException.__init__(self, tag)
        self.tag = tag


class FalsyFault(Exception):
    """An exception object that tests false"""

    def __len__(self):
        return 0


class EqualFault(Exception):
    """Exceptions with value equality"""

    def __eq__(self, other):
        return type(other) is type(self) and other.args == self.args

    def __hash__(self):
        return hash(self.args)


FAULT_TYPES = (InjectedFault, TypeError, ValueError, LookupError, InjectedBase, RuntimeError,
               AttributeError, KeyError, IndexError, OSError, AssertionError,
               EOFError, ZeroDivisionError, asyncio.CancelledError, NotImplementedError, MemoryError,
               FalsyFault, EqualFault)


def make_fault(kind, tag):
    cls = FAULT_TYPES[kind % len(FAULT_TYPES)]
    exc = cls(tag)
    try:
        exc.tag = tag
    except AttributeError:  # pragma: no cover
        pass
    return exc


# --------------------------------------------------------------------------- world
class World:
    """One instantiation of the parties of a scenario (async inside ``sim``, or sync)"""

    __slots__ = ("sim", "log", "uses", "fault_party", "fault_index", "fault_exc", "fault_fired", "fault2",
                 "sources", "fns", "use_after_fault", "repolls")

    def __init__(self, sim=None, own_log=False):
        self.sim = sim
        self.log = sim.log if (sim is not None and not own_log) else []
        self.uses = []  # merged use sequence: (party name, local use index)
        self.fault_party = None
        self.fault_index = -1
        self.fault_exc = None
        self.fault_fired = False
        self.fault2 = None  # an optional second fault (party, index, exc): whichever use comes first fires
        self.use_after_fault = []
        self.repolls = set()  # uses that re-poll a source which already reported its end
        self.sources = {}
        self.fns = {}

    def set_fault(self, party, index, exc):
        self.fault_party = party
        self.fault_index = index
        self.fault_exc = exc


# --------------------------------------------------------------------------- sources
SYNC_FLAVOURS = ("list", "tuple", "getitem", "sync_iter", "seq_abc", "set_abc")
CONTAINER_FLAVOURS = ("list", "tuple", "getitem", "seq_abc", "set_abc")  # iterable more than once
ASYNC_FLAVOURS = ("agen", "aiter_cls", "aiter_noclose", "aiterable", "aiter_full")
EXTRA_FLAVOURS = ("aiter_throwonly", "aiter_proxy", "aiter_sendonly")  # only used where a check asks for it
ALL_FLAVOURS = SYNC_FLAVOURS + ASYNC_FLAVOURS
LOGGING_FLAVOURS = ("getitem", "sync_iter", "seq_abc", "set_abc") + ASYNC_FLAVOURS


class SrcPlan:
    __slots__ = ("name", "items", "flavour", "suspend", "aclose_suspends", "fresh", "aclose_mode", "falsy", "resilient",
                 "iter_fault", "equal", "slow", "dual", "lazy_open", "hand_next", "as_gen")

    def __init__(self, name, items, flavour="list", suspend=(), aclose_suspends=0, fresh=False, aclose_mode=0,
                 falsy=False, resilient=False, iter_fault=None, equal=False, slow=None, dual=False, lazy_open=False,
                 hand_next=False):
        self.as_gen = False  # (sync_iter) the iterator is a regular *generator* object: it has close(), which is its owner's
        self.lazy_open = lazy_open  # (class-based) __anext__ only works after __aiter__ has been called
        self.hand_next = hand_next  # (class-based) plain def __anext__ returning a hand-written awaitable object
        self.dual = dual  # (class-based) also offers the synchronous protocol, with another meaning: the async side counts
        self.slow = slow  # virtual seconds that pass inside the k-th pull (clock seam), or None
        self.resilient = resilient  # (async generator) handles exceptions thrown in at its yield and continues
        self.iter_fault = iter_fault  # exception type raised by __iter__ / __aiter__ itself
        self.equal = equal  # (class-based) compares and hashes equal to every other source flagged like this
        self.falsy = falsy  # the iterator / iterable object tests false (non-empty all the same)
        # 0: coroutine returning None   1: coroutine returning a truthy value
        # 2: plain method returning a hand-written awaitable (closing happens when that is awaited)
        self.aclose_mode = aclose_mode
        self.fresh = fresh  # instantiate private copies of the items and track them by weakref
        self.name = name
        self.items = items
        self.flavour = flavour
        self.suspend = tuple(suspend)
        self.aclose_suspends = aclose_suspends

    def describe(self):
        return {
            "name": self.name,
            "items": [repr(i) for i in self.items],
            "flavour": self.flavour,
            "suspend": list(self.suspend),
            "aclose_suspends": self.aclose_suspends,
            "aclose_mode": self.aclose_mode,
            "falsy": self.falsy,
            "resilient": self.resilient,
            "iter_fault": self.iter_fault.__name__ if self.iter_fault is not None else None,
            "equal": self.equal,
            "slow": list(self.slow) if self.slow else None,
            "dual": self.dual,
            "lazy_open": self.lazy_open,
            "hand_next": self.hand_next,
            "regular_generator": self.as_gen,
        }


class Source:
    """State of one source in one world; the iterator objects below drive it"""

    __slots__ = (
        "world", "plan", "name", "items", "cursor", "n_pulls", "exhausted", "closed",
        "n_aclose", "finalised", "in_flight", "overlaps", "pulls_after_close", "failed",
        "obj", "agen", "started", "delivered", "n_iters", "refs", "killed", "iters", "opened",
    )

    def __init__(self, world, plan):
        self.world = world
        self.plan = plan
        self.name = plan.name
        if plan.fresh:
            copies = {}  # (an object that occurs several times in the plan occurs as often - as one object - in the copy)
            self.items = [copies.setdefault(id(i), Item(i.key, i.uid, i.truth)) for i in plan.items]
            self.refs = []
        else:
            self.items = plan.items
            self.refs = None
        self.cursor = 0
        self.n_pulls = 0
        self.exhausted = False
        self.closed = False
        self.n_aclose = 0
        self.finalised = False
        self.in_flight = 0
        self.overlaps = 0
        self.pulls_after_close = 0
        self.failed = False
        self.obj = None
        self.agen = None
        self.started = False
        self.delivered = 0
        self.n_iters = 0
        self.iters = []  # (async iterable) every iterator handed out by __aiter__
        self.opened = False
        self.killed = False  # an exception thrown in (cancellation) ended the async generator
        world.sources[plan.name] = self

    # -- shared core of one pull; returns the item or raises ------------------------
    def _begin(self):
        world = self.world
        k = self.n_pulls
        self.n_pulls = k + 1
        self.started = True
        if self.failed:
            world.use_after_fault.append(self.name)
        world.uses.append((self.name, k))
        if self.exhausted:
            world.repolls.add((self.name, k))
        world.log.append(("pull", self.name, k))
        slow = self.plan.slow
        if slow:
            VCLOCK.advance(slow[k % len(slow)])
        return k

    def _restart(self):
        """A re-iterable container is iterated once more, from its first item"""
        self.cursor = 0
        self.exhausted = False
        self.world.log.append(("restart", self.name))

    def _resolve(self, k):
        world = self.world
        if world.fault_party == self.name and world.fault_index == k:
            world.fault_fired = True
            self.failed = True
            world.log.append(("raise", self.name, k))
            raise world.fault_exc
        if world.fault2 is not None and world.fault2[0] == self.name and world.fault2[1] == k:
            world.fault_fired = True
            self.failed = True
            world.log.append(("raise", self.name, k))
            raise world.fault2[2]
        i = self.cursor
        if self.closed:
            self.pulls_after_close += 1
            world.log.append(("pull_after_close", self.name))
            return _EOS
        if i >= len(self.items):
            self.exhausted = True
            world.log.append(("eos", self.name))
            return _EOS
        self.cursor = i + 1
        self.delivered += 1
        world.log.append(("item", self.name, i))
        if self.refs is not None:
            item = self.items[i]
            self.items[i] = None  # the source itself keeps nothing alive
            self.refs.append(weakref.ref(item))
            return item
        return self.items[i]

    @property
    def released(self):
        """Closed or run to exhaustion, as the instrumented source sees it"""
        fl = self.plan.flavour
        if fl == "agen":
            ag = self.agen
            return ag is None or ag.ag_frame is None
        if fl in ("aiter_cls", "aiterable", "aiter_full", "aiter_throwonly", "aiter_proxy"):
            if fl == "aiterable":
                # every cursor the iterable handed out has been closed (or the shared stream ran dry)
                return self.n_iters == 0 or self.exhausted or all(it.closed_self for it in self.iters)
            return self.n_aclose >= 1 or self.exhausted or self.failed_dead
        return True

    @property
    def failed_dead(self):
        return False

    @property
    def must_release(self):
        fl = self.plan.flavour
        if fl == "agen":
            return self.agen is not None
        if fl in ("aiter_cls", "aiter_full", "aiter_throwonly", "aiter_proxy"):
            return True
        if fl == "aiterable":
            return self.n_iters > 0
        return False


class _Eos:
    def __repr__(self):
        return "<EOS>"


_EOS = _Eos()


def _iter_fault(src):
    """``__iter__`` / ``__aiter__`` of a source that cannot be opened"""
    exc_type = src.plan.iter_fault
    if exc_type is not None:
        src.world.log.append(("iter_raise", src.name))
        raise make_fault(FAULT_TYPES.index(exc_type), "iter:%s" % src.name)


class SyncIter:
    """One-shot synchronous iterator over a source (logging); also the reference twin"""

    __slots__ = ("src",)

    def __init__(self, src):
        self.src = src

    def __bool__(self):
        return not self.src.plan.falsy

    def __iter__(self):
        _iter_fault(self.src)
        return self

    def __next__(self):
        src = self.src
        k = src._begin()
        got = src._resolve(k)
        if got is _EOS:
            raise StopIteration
        return got


def _sync_generator(it):
    """A regular generator over a one-shot iterator (what a ``def`` with ``yield`` gives its caller)"""
    for item in it:
        yield item


class GetItemSeq:
    """Only the sequence protocol: ``__getitem__`` with 0, 1, 2, ..."""

    __slots__ = ("src",)

    def __init__(self, src):
        self.src = src

    def __getitem__(self, index):
        src = self.src
        if index == 0 and src.cursor > 0:
            src._restart()  # a container can be iterated again: a new iteration starts at its first item
        k = src._begin()
        got = src._resolve(k)
        if got is _EOS:
            raise IndexError(index)
        return got


class SeqAbc(collections.abc.Sequence):
    """A user-defined ``collections.abc.Sequence``: instrumented ``__getitem__`` plus ``__len__``"""

    __slots__ = ("src",)

    def __init__(self, src):
        self.src = src

    __getitem__ = GetItemSeq.__getitem__

    def __len__(self):
        return len(self.src.plan.items)


class SetAbc(collections.abc.Set):
    """A user-defined ``collections.abc.Set`` whose iteration is instrumented (and may fail midway)"""

    __slots__ = ("src",)

    def __init__(self, src):
        self.src = src

    def __iter__(self):
        _iter_fault(self.src)
        if self.src.cursor > 0:
            self.src._restart()
        return self._iterate()

    def _iterate(self):
        src = self.src
        while True:
            k = src._begin()
            got = src._resolve(k)
            if got is _EOS:
                return
            yield got

    def __contains__(self, value):
        return any(value == i for i in self.src.plan.items)

    def __len__(self):
        return len(self.src.plan.items)

    __hash__ = object.__hash__

    def __eq__(self, other):
        return self is other


async def _suspend_for(src, k):
    sim = src.world.sim
    plan = src.plan.suspend
    if plan:
        v = plan[k % len(plan)]
        if v:
            if v >= 3:
                await sim.suspend(SLEEP, 10 * (k + 1), src.name)
            else:
                await sim.suspend(PAUSE, None, src.name)
                if v == 2:
                    await sim.suspend(PAUSE, None, src.name)


async def _agen_stream(src):
    world = src.world
    try:
        while True:
            k = src._begin()
            if src.in_flight:
                src.overlaps += 1
                world.log.append(("overlap", src.name))
            src.in_flight += 1
            try:
                await _suspend_for(src, k)
                got = src._resolve(k)
            finally:
                src.in_flight -= 1
            if got is _EOS:
                return
            # hand the item over without keeping it in this frame while suspended at the yield
            hold = [got]
            del got
            if src.plan.resilient:
                # a generator that survives errors thrown in at its yield and carries on with the next item
                try:
                    yield hold.pop()
                except Exception as err:
                    world.log.append(("thrown_into", src.name, type(err).__name__))
                    if src.plan.resilient == 2:
                        # ... or reports whatever reaches it at its yield as a failure of its own
                        raise SourceReadError("while delivering an item of %s" % src.name) from err
            else:
                yield hold.pop()
    except GeneratorExit:
        raise
    except BaseException:
        src.killed = True
        raise
    finally:
        src.finalised = True
        world.log.append(("fin", src.name))


class AIterCls:
    """Class based async iterator with ``aclose``; cancel safe (cursor moves on delivery)"""

    __slots__ = ("src",)

    def __init__(self, src):
        self.src = src

    def __eq__(self, other):
        # value equality (two subscriptions to one topic): distinct objects all the same
        if self is other:
            return True
        osrc = getattr(other, "src", None)
        return bool(self.src.plan.equal and osrc is not None and getattr(osrc.plan, "equal", False))

    def __hash__(self):
        return 7 if self.src.plan.equal else object.__hash__(self)

    def __bool__(self):
        return not self.src.plan.falsy

    def __aiter__(self):
        _iter_fault(self.src)
        self.src.opened = True
        return self

    async def __anext__(self):
        src = self.src
        if src.plan.lazy_open and not src.opened:
            # a cursor that is opened by __aiter__ (idempotently): whoever iterates it goes through __aiter__ first
            raise TypeError("%s: __anext__ before __aiter__" % src.name)
        k = src._begin()
        if src.in_flight:
            src.overlaps += 1
            src.world.log.append(("overlap", src.name))
        src.in_flight += 1
        try:
            await _suspend_for(src, k)
            got = src._resolve(k)
        finally:
            src.in_flight -= 1
        if got is _EOS:
            raise StopAsyncIteration
        return got

    async def _do_aclose(self):
        src = self.src
        src.n_aclose += 1
        src.world.log.append(("aclose", src.name))
        if src.in_flight:
            # closed while a pull (or another close) of it is still in flight: two users inside the source at once
            # (counted for C09; not an event of the log the stdlib comparisons read - the loop's finalizer closing what
            # a tool left behind may meet the tool's own close there, see DESIGN section 13 round 10)
            src.overlaps += 1
        src.in_flight += 1
        try:
            for _ in range(src.plan.aclose_suspends):
                await src.world.sim.suspend(PAUSE, None, src.name)
        finally:
            src.in_flight -= 1
        src.closed = True
        return True if src.plan.aclose_mode == 1 else None

    def aclose(self):
        if self.src.plan.aclose_mode == 2:
            return _AwaitableClose(self._do_aclose())
        return self._do_aclose()


class _NextAwaitable:
    """What a plain ``def __anext__`` may return: an awaitable object whose ``__await__`` is a generator function"""

    __slots__ = ("it",)

    def __init__(self, it):
        self.it = it

    def __await__(self):
        return AIterCls.__anext__(self.it).__await__()


class AIterHandNext(AIterCls):
    """Class-based async iterator whose ``__anext__`` is a plain method returning an awaitable object"""

    __slots__ = ()

    def __anext__(self):
        # the read is asked for here, at call time (as with an iterator that starts an I/O request and hands back its
        # future): asking while another read of this source is in flight is a second user inside the source
        if self.src.in_flight:
            self.src.overlaps += 1
        return _NextAwaitable(self)


class AIterDual(AIterCls):
    """An async iterator that also offers the blocking protocol (think: a cursor with a sync fallback that reads only
    what is buffered).  The library is asynchronous: the async side is the one that counts."""

    __slots__ = ()

    def __iter__(self):
        self.src.world.log.append(("sync_side_used", self.src.name))
        return iter(("SYNC-SIDE-OF-%s" % self.src.name,))


class _AwaitableClose:
    """What a plain ``def aclose`` may return: an awaitable that is not a coroutine"""

    __slots__ = ("coro", "started")

    def __init__(self, coro):
        self.coro = coro
        self.started = False

    def __await__(self):
        self.started = True
        return (yield from self.coro.__await__())

    def __del__(self):
        # never awaited: do not let the inner coroutine complain on top of the real finding
        if not self.started:
            try:
                self.coro.close()
            except Exception:  # pragma: no cover
                pass


class AIterNoClose:
    __slots__ = ("src",)

    def __init__(self, src):
        self.src = src

    def __eq__(self, other):
        # value equality (two subscriptions to one topic): distinct objects all the same
        if self is other:
            return True
        osrc = getattr(other, "src", None)
        return bool(self.src.plan.equal and osrc is not None and getattr(osrc.plan, "equal", False))

    def __hash__(self):
        return 7 if self.src.plan.equal else object.__hash__(self)

    def __bool__(self):
        return not self.src.plan.falsy

    def __aiter__(self):
        _iter_fault(self.src)
        return self

    __anext__ = AIterCls.__anext__


class AIterFull(AIterCls):
    """Class based async *generator* protocol: asend / athrow as well"""

    __slots__ = ()

    async def asend(self, value):
        self.src.world.log.append(("asend", self.src.name, ident(value)))
        return await self.__anext__()

    async def athrow(self, typ, val=None, tb=None):
        self.src.world.log.append(("athrow", self.src.name))
        self.src.closed = True
        if isinstance(typ, BaseException):
            raise typ
        raise typ() if val is None else val


class AIterSendOnly(AIterNoClose):
    """Class based async iterator with ``asend`` - and neither ``athrow`` nor ``aclose``"""

    __slots__ = ()

    async def asend(self, value):
        self.src.world.log.append(("asend", self.src.name, ident(value)))
        return await self.__anext__()


class AIterThrowOnly(AIterCls):
    """Class based async iterator with ``aclose`` and ``athrow`` but no ``asend``"""

    __slots__ = ()

    async def athrow(self, typ, val=None, tb=None):
        self.src.world.log.append(("athrow", self.src.name))
        # an exception thrown in makes this iterator deliver its next item (it "handles" the exception)
        return await self.__anext__()


class AIterProxy:
    """A delegating proxy: the iteration protocol is spelled out, everything else (``aclose``) is forwarded dynamically"""

    __slots__ = ("_inner",)

    def __init__(self, src):
        self._inner = AIterCls(src)

    def __aiter__(self):
        return self

    async def __anext__(self):
        return await self._inner.__anext__()

    def __getattr__(self, name):
        if name.startswith("__"):
            raise AttributeError(name)
        return getattr(self._inner, name)


class AIterOfIterable(AIterCls):
    """One iterator handed out by an async iterable: a cursor of its own that wants closing"""

    __slots__ = ("closed_self",)

    def __init__(self, src):
        AIterCls.__init__(self, src)
        self.closed_self = False

    def aclose(self):
        self.closed_self = True
        return AIterCls.aclose(self)


class AIterable:
    __slots__ = ("src",)

    def __init__(self, src):
        self.src = src

    def __bool__(self):
        return not self.src.plan.falsy

    def __aiter__(self):
        _iter_fault(self.src)
        self.src.n_iters += 1
        it = AIterOfIterable(self.src)
        self.src.iters.append(it)
        return it


def make_async_source(world, plan):
    """The object handed to the library for this source, in the async world"""
    src = Source(world, plan)
    fl = plan.flavour
    if fl == "list":
        obj = list(plan.items)
    elif fl == "tuple":
        obj = tuple(plan.items)
    elif fl == "getitem":
        obj = GetItemSeq(src)
    elif fl == "seq_abc":
        obj = SeqAbc(src)
    elif fl == "set_abc":
        obj = SetAbc(src)
    elif fl == "sync_iter":
        obj = SyncIter(src) if not plan.as_gen else _sync_generator(SyncIter(src))
    elif fl == "agen":
        obj = _agen_stream(src)
        src.agen = obj
    elif fl == "aiter_cls":
        obj = AIterDual(src) if plan.dual else (AIterHandNext(src) if plan.hand_next else AIterCls(src))
    elif fl == "aiter_noclose":
        obj = AIterNoClose(src)
    elif fl == "aiter_full":
        obj = AIterFull(src)
    elif fl == "aiter_throwonly":
        obj = AIterThrowOnly(src)
    elif fl == "aiter_proxy":
        obj = AIterProxy(src)
    elif fl == "aiter_sendonly":
        obj = AIterSendOnly(src)
    elif fl == "aiterable":
        obj = AIterable(src)
    else:  # pragma: no cover
        raise ValueError(fl)
    src.obj = obj
    return src


def make_ref_source(world, plan, as_container=False):
    """The synchronous twin feeding the stdlib reference"""
    src = Source(world, plan)
    if as_container and plan.flavour in ("list", "tuple"):
        src.obj = list(plan.items) if plan.flavour == "list" else tuple(plan.items)
    elif plan.flavour == "getitem":
        # the sequence protocol treats IndexError as the end: the reference must see the same object kind
        src.obj = GetItemSeq(src)
    elif plan.flavour == "seq_abc":
        src.obj = SeqAbc(src)
    elif plan.flavour == "set_abc":
        src.obj = SetAbc(src)
    else:
        src.obj = SyncIter(src) if not (plan.flavour == "sync_iter" and plan.as_gen) else _sync_generator(SyncIter(src))
    return src


# --------------------------------------------------------------------------- callables
FN_FLAVOURS = ("def", "async", "partial_async", "obj_coro", "obj_awaitable", "obj_falsy", "cls_awaitable", "obj_future",
               "obj_unhashable", "cls_async_call", "def_wraps_async")


class FnPlan:
    __slots__ = ("name", "kind", "param", "flavour", "suspend")

    def __init__(self, name, kind, param=0, flavour="def", suspend=()):
        self.name = name
        self.kind = kind
        self.param = param
        self.flavour = flavour
        self.suspend = tuple(suspend)

    def describe(self):
        return {"name": self.name, "kind": self.kind, "param": self.param,
                "flavour": self.flavour, "suspend": list(self.suspend)}


def _behave(kind, param, args, feed):
    if kind == "lt":
        return keyof(args[0]) < param
    if kind == "mod":
        return keyof(args[0]) % 2 == param % 2
    if kind == "truth":
        return bool(args[0])
    if kind == "ident":
        return args[0]
    if kind == "keyval":
        return keyof(args[0])
    if kind == "div":
        return keyof(args[0]) // (param + 2)
    if kind == "uidkey":
        # equal items need not have equal keys: the key looks at what distinguishes them
        x = args[0]
        uid = getattr(x, "uid", 0)
        if type(uid) is tuple:
            uid = uid[1] if len(uid) == 2 and type(uid[1]) is int else 0
        return (uid if type(uid) is int else 0) % 3
    if kind == "tol":
        return TolerantKey(keyof(args[0]))
    if kind == "idobj":
        # keys that are plain objects: equal only to themselves (the entity a record refers to)
        return _ENTITIES[keyof(args[0]) % len(_ENTITIES)]
    if kind == "mixnum":
        # keys of mixed numeric kinds that order fine among each other (Decimal is not a numbers.Real)
        k = keyof(args[0])
        return (decimal.Decimal(k) + decimal.Decimal("0.5"), float(k), fractions.Fraction(2 * k + 1, 2), k)[(k + param) % 4]
    if kind == "nankey":
        k = keyof(args[0])
        return float("nan") if (type(k) is int and (k + param) % 3 == 1) else (float(k) if type(k) is int else k)
    if kind == "divnone":
        return (keyof(args[0]) // (param + 2)) or None
    if kind == "neg":
        return -keyof(args[0])
    if kind == "const":
        return 0
    if kind == "combine":
        total = 0
        for a in args:
            k = keyof(a)
            total += k if type(k) is int else 0
        return Item(total % 7, ("f",) + tuple([ident(a) for a in args]))
    if kind == "feed":
        i = feed[0]
        feed[0] = i + 1
        seq = param
        if i >= len(seq):
            raise LookupError("feed exhausted")
        return seq[i]
    raise ValueError(kind)  # pragma: no cover


class _HandAwaitable:
    """A hand written awaitable (not a coroutine): suspends n times, then resolves"""

    __slots__ = ("fn", "args", "n")

    def __init__(self, fn, args, n):
        self.fn = fn
        self.args = args
        self.n = n

    def __await__(self):
        fn = self.fn
        for _ in range(self.n):
            yield from fn.world.sim.suspend(PAUSE, None, fn.name).__await__()
        return fn._result(self.args)


class DataAwaitable:
    """
    An awaitable handed out as a *value* by a synchronous callable (a job handle, a future to pass on).
    Nobody is supposed to await it on the caller's behalf; if somebody does, it says so and suspends.
    """

    __slots__ = ("world", "name")

    def __init__(self, world, name):
        self.world = world
        self.name = name

    def __await__(self):
        self.world.log.append(("data_awaited", self.name))
        yield self
        return ("awaited-data", self.name)


class Fn:
    """State of one user callable in one world"""

    __slots__ = ("world", "plan", "name", "n_calls", "feed", "failed", "obj", "in_flight", "max_in_flight")

    def __init__(self, world, plan):
        self.world = world
        self.plan = plan
        self.name = plan.name
        self.n_calls = 0
        self.feed = [0]
        self.failed = False
        self.in_flight = 0
        self.max_in_flight = 0
        world.fns[plan.name] = self
        self.obj = None

    def _enter(self, args):
        world = self.world
        k = self.n_calls
        self.n_calls = k + 1
        if self.failed:
            world.use_after_fault.append(self.name)
        world.uses.append((self.name, k))
        world.log.append(("call", self.name, ident(args)))
        return k

    def _nsusp(self, k):
        plan = self.plan.suspend
        return plan[k % len(plan)] if plan else 0

    def _result(self, args, k=None):
        world = self.world
        if k is None:
            k = self.n_calls - 1
        if world.fault_party == self.name and world.fault_index == k:
            world.fault_fired = True
            self.failed = True
            world.log.append(("craise", self.name, k))
            raise world.fault_exc
        if world.fault2 is not None and world.fault2[0] == self.name and world.fault2[1] == k:
            world.fault_fired = True
            self.failed = True
            world.log.append(("craise", self.name, k))
            raise world.fault2[2]
        if self.plan.kind == "combine_data":
            if k >= 1 and k % 2 == 1:
                return DataAwaitable(world, self.name)
            return _behave("combine", self.plan.param, args, self.feed)
        return _behave(self.plan.kind, self.plan.param, args, self.feed)

    # -- flavours --------------------------------------------------------------------
    def sync_call(self, *args):
        k = self._enter(args)
        return self._result(args, k)

    async def async_call(self, *args):
        k = self._enter(args)
        n = self._nsusp(k)
        sim = self.world.sim
        for _ in range(n):
            await sim.suspend(PAUSE, None, self.name)
        return self._result(args, k)

    def awaitable_call(self, *args):
        k = self._enter(args)
        return _HandAwaitable(self, args, self._nsusp(k))

    def future_call(self, *args):
        k = self._enter(args)
        return _FutureLike(self, args, self._nsusp(k))


class _CallableObj:
    __slots__ = ("call",)

    def __init__(self, call):
        self.call = call

    def __call__(self, *args):
        return self.call(*args)


class _FalsyCallable(_CallableObj):
    """A callable object that is falsy (think: a dict subclass with __call__ and no entries)"""

    __slots__ = ()

    def __bool__(self):
        return False

    def __len__(self):
        return 0


class _UnhashableCallable(_CallableObj):
    """A callable object with value equality and therefore no hash (a plain dataclass with __call__)"""

    __slots__ = ()

    def __eq__(self, other):
        return type(other) is type(self)

    __hash__ = None


class _FutureLike(_HandAwaitable):
    """Awaitable that is also iterable, like asyncio.Future (``__iter__ = __await__``)"""

    __slots__ = ()

    def __iter__(self):
        return self.__await__()


class ResultObject:
    """What calling a class gives: an instance.  Its ``__call__`` is a coroutine function - which says nothing about
    what calling the *class* returns (a plain value: the instance)"""

    __slots__ = ("value",)

    def __init__(self, value):
        self.value = value

    async def __call__(self):  # pragma: no cover - nobody is supposed to call, let alone await, the result
        return ("instance-was-called", self.value)

    def __bool__(self):
        return bool(self.value)


def _class_with_async_call(fn, sync):
    class Job(ResultObject):
        __slots__ = ()

        def __init__(self, *args):
            ResultObject.__init__(self, fn.sync_call(*args))

    return Job


def _awaitable_class(fn):
    """A *class* used as the callable: calling it builds an awaitable instance"""

    class AwaitableCall:
        __slots__ = ("args", "k")

        def __init__(self, *args):
            self.args = args
            self.k = fn._enter(args)

        def __await__(self):
            for _ in range(fn._nsusp(self.k)):
                yield from fn.world.sim.suspend(PAUSE, None, fn.name).__await__()
            return fn._result(self.args, self.k)

    return AwaitableCall


def make_async_fn(world, plan):
    fn = Fn(world, plan)
    fl = plan.flavour
    if fl == "def":
        sync_call = fn.sync_call

        def plain(*args):
            return sync_call(*args)

        fn.obj = plain
    elif fl == "def_wraps_async":
        # a synchronous stand-in (cache front, local fallback) carrying the metadata of the async function it replaces
        sync_call = fn.sync_call

        async def remote(*args):  # pragma: no cover - never called
            raise AssertionError("the wrapped original must not be called")

        @functools.wraps(remote)
        def standin(*args):
            return sync_call(*args)

        fn.obj = standin
    elif fl == "async":
        async_call = fn.async_call

        async def coro_fn(*args):
            return await async_call(*args)

        fn.obj = coro_fn
    elif fl == "partial_async":
        async_call = fn.async_call

        async def coro_fn2(_marker, *args):
            return await async_call(*args)

        fn.obj = functools.partial(coro_fn2, None)
    elif fl == "obj_coro":
        fn.obj = _CallableObj(fn.async_call)
    elif fl == "obj_awaitable":
        fn.obj = _CallableObj(fn.awaitable_call)
    elif fl == "obj_falsy":
        fn.obj = _FalsyCallable(fn.async_call)
    elif fl == "obj_unhashable":
        fn.obj = _UnhashableCallable(fn.async_call)
    elif fl == "cls_async_call":
        fn.obj = _class_with_async_call(fn, False)
    elif fl == "cls_awaitable":
        fn.obj = _awaitable_class(fn)
    elif fl == "obj_future":
        fn.obj = _CallableObj(fn.future_call)
    else:  # pragma: no cover
        raise ValueError(fl)
    return fn


def make_ref_fn(world, plan):
    fn = Fn(world, plan)
    if plan.flavour == "cls_async_call":
        fn.obj = _class_with_async_call(fn, True)
        return fn
    sync_call = fn.sync_call

    def plain(*args):
        return sync_call(*args)

    fn.obj = plain
    return fn
