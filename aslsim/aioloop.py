"""
Backend B (DESIGN.md 3.8): a deterministic *asyncio* event loop.

The concurrency checks (C09, C11, C12, C15) can run their workloads on the real asyncio machinery -
real ``asyncio.Task`` stepping, real ``Task.cancel()`` / ``CancelledError`` delivery, the real
``asyncio.Lock`` - instead of the token loop.  Nondeterminism is removed the asyncio way:

* virtual clock: ``time()`` is a counter; when nothing is ready the clock jumps to the next timer
* every suspension of a user awaitable is ``asyncio.sleep(d)`` with ``d`` drawn from the schedule
  stream, so the stream decides which task wakes first; the ready queue itself stays FIFO, exactly as
  asyncio promises (callbacks are never reordered behind asyncio's back)
* cancellation is ``task.cancel()`` scheduled with ``call_at`` at a drawn virtual instant

``AioSim`` offers the same surface as ``loop.Sim`` so a check only swaps the factory.  It cannot carry
the token protocol (asyncio accepts only futures / bare yields from coroutines), so property C17 is
never decided here.
"""

import asyncio
import heapq

from .loop import PAUSE, SLEEP


class Deadlock(Exception):
    pass


class DetLoop(asyncio.BaseEventLoop):
    def __init__(self, sim):
        super().__init__()
        self._vtime = 0.0
        self._sim = sim

    def time(self):
        return self._vtime

    def _process_events(self, event_list):  # pragma: no cover
        pass

    def _write_to_self(self):
        pass

    def _run_once(self):
        sched = self._scheduled
        while sched and sched[0]._cancelled:
            handle = heapq.heappop(sched)
            handle._scheduled = False
        if not self._ready:
            if not sched:
                raise Deadlock()
            if sched[0]._when > self._vtime:
                self._vtime = sched[0]._when
        while sched and sched[0]._when <= self._vtime:
            handle = heapq.heappop(sched)
            handle._scheduled = False
            if not handle._cancelled:
                self._ready.append(handle)
        ntodo = len(self._ready)
        sim = self._sim
        for _ in range(ntodo):
            handle = self._ready.popleft()
            if handle._cancelled:
                continue
            sim.seq += 1
            handle._run()
            for hook in sim.step_hooks:
                hook(sim)
            if sim.seq >= sim.max_steps:
                sim.capped = True
                self.stop()
                return
        handle = None


class TaskW:
    """What the checks see of a task"""

    __slots__ = ("id", "name", "atask", "error", "result", "cancelled_with", "is_finalizer", "finished", "nsusp")

    def __init__(self, tid, name):
        self.id = tid
        self.name = name
        self.atask = None
        self.error = None
        self.result = None
        self.cancelled_with = None
        self.is_finalizer = False
        self.finished = False
        self.nsusp = 0

    @property
    def done(self):
        return self.finished


class _CancelPlan(dict):
    def __init__(self, sim):
        dict.__init__(self)
        self.sim = sim

    def __setitem__(self, tid, c):
        dict.__setitem__(self, tid, c)
        sim = self.sim
        task = sim.tasks[tid]

        def fire():
            if not task.finished and task.atask is not None and not task.atask.done():
                sim.cancel_sent = True
                task.atask.cancel()

        # suspensions last 0..3 ms of virtual time: c * 0.7 ms lands somewhere inside the run
        sim.loop.call_at(c * 0.0007, fire)


class AioSim:
    backend = "asyncio"

    def __init__(self, schedule, max_steps=20000):
        self.schedule = schedule
        self.max_steps = max_steps
        self.loop = DetLoop(self)
        self.tasks = []
        self.by_atask = {}
        self.log = []
        self.trace = []
        self.seq = 0
        self.breaches = []
        self.n_tokens = 0
        self.n_interrupts = 0
        self.n_interrupts_absorbed = 0
        self.n_finalizers = 0
        self.n_foreign = 0
        self.deadlock = False
        self.capped = False
        self.step_hooks = []
        self.cancel_plan = _CancelPlan(self)
        self.cancel_sent = None
        self.cancel_arrived = False
        self.cancel_fired_at = None
        self.interrupt_den = 0
        self.faults = None
        self.locks = []

    @property
    def now(self):
        return int(self.loop.time() * 1e6)

    @property
    def current(self):
        try:
            at = asyncio.current_task(self.loop)
        except RuntimeError:
            return None
        return self.by_atask.get(at)

    # ---- suspension: the schedule stream decides how long, hence who wakes first
    def suspend(self, kind=PAUSE, arg=None, party=None):
        self.n_tokens += 1
        cur = self.current
        if cur is not None:
            cur.nsusp += 1
            self.trace.append(cur.id)
        if kind == SLEEP:
            return asyncio.sleep(arg * 1e-6)
        return asyncio.sleep(self.schedule.draw(4) * 0.001)

    def spawn(self, coro, name=None):
        tw = TaskW(len(self.tasks), name or "t%d" % len(self.tasks))
        self.tasks.append(tw)
        sim = self

        async def runner():
            try:
                tw.result = await coro
            except asyncio.CancelledError as err:
                tw.error = err
                tw.cancelled_with = err
                sim.cancel_fired_at = (tw.id, 0, "asyncio")
            except BaseException as err:  # noqa
                tw.error = err
            finally:
                tw.finished = True

        tw.atask = self.loop.create_task(runner())
        self.by_atask[tw.atask] = tw
        return tw

    def install(self):
        pass

    def uninstall(self):
        pass

    def run(self):
        loop = self.loop
        pending = [t.atask for t in self.tasks if not t.atask.done()]
        if not pending:
            return
        try:
            loop.run_until_complete(asyncio.gather(*pending, return_exceptions=True))
        except Deadlock:
            self.deadlock = True
        except RuntimeError:
            # "Event loop stopped before Future completed": the step cap
            if not self.capped:
                raise

    def close_leftovers(self):
        pass

    def close(self):
        loop = self.loop
        try:
            if not self.deadlock and not self.capped:
                loop.run_until_complete(loop.shutdown_asyncgens())
        except BaseException:  # noqa
            pass
        for t in self.tasks:
            if t.atask is not None and not t.atask.done():
                t.atask.cancel()
        try:
            loop.close()
        except BaseException:  # noqa
            pass

    def breach(self, what, detail=None):  # pragma: no cover
        self.breaches.append((what, detail, self.seq))


def make_aio_lock_type(sim, policy=0, acquire_suspends=False, release_suspends=False):
    """The real asyncio.Lock, instrumented only by recording who owns it"""

    class AioLock(asyncio.Lock):
        def __init__(self):
            super().__init__()
            self.owner = None
            self.misuse = []
            self.n_acquired = 0
            sim.locks.append(self)
            self.lid = len(sim.locks) - 1

        @property
        def waiters(self):
            return [w for w in (self._waiters or ()) if not w.cancelled()]

        async def __aenter__(self):
            await self.acquire()
            self.owner = sim.current
            self.n_acquired += 1
            sim.log.append(("lock_acq", self.lid, self.owner.id if self.owner else None))
            return None

        async def __aexit__(self, exc_type, exc, tb):
            cur = sim.current
            sim.log.append(("lock_rel", self.lid, cur.id if cur else None))
            self.owner = None
            self.release()

    return AioLock
