"""
C01 - iterator tools produce exactly what their stdlib namesakes produce.

Fault-free population of the tool workload: 1..3 independent tool instances (co-tenants) run
as tasks of one simulated loop, fed by suspending streams/callables of seeded flavours; each is
compared with the real stdlib function run over the sync twins of the very same objects.
"""

from ..actors import World, Item, is_source_item, ident, make_fault, FAULT_TYPES, LOGGING_FLAVOURS
from ..runner import Outcome
from ..tools import TOOLS, draw_cfg
from ..tooldiff import Run, drive_tool, ref_tool, project_values, first_diff
from .common import (
    COMPONENTS_BASE, run_sim, new_sim, finish_outcome, spec_nontrivial, gen_tool, bounded_steps,
)

PID = "C01"
LEVEL = "exploration"
BUDGET = {"quick": 300000, "thorough": 6000000}
RULE = (
    "each run draws a swarm configuration (flavour palettes, suspension depth, length/key scale, "
    "interrupt density) and 1..3 co-tenant scenarios: a tool, its valid parameters, 0..4 sources of "
    "0..7 items with heavy ties, callables; all co-tenants run interleaved by the seeded scheduler and "
    "each is compared with the stdlib twin (items by identity, ending by exception type); in one scenario in six "
    "one or two parties (sources, callables) are prepared to raise at one of their uses. A case is "
    "non-trivial if it yields >=1 item or ends with an error AND has a tie, unequal lengths, a callable "
    "or a non-default parameter; distinct = distinct (tool, flavours, key sequences, callables, "
    "parameters) tuples over all co-tenants, counted by 64-bit hash."
    " Extensions of rounds 9-12: the consumer may stop a finite tool early (any prefix) or ask again after the end; faults also at the pull after the stdlib's last pull of an open source; nested chains and re-split tee children; regular generator sources whose owner reads on afterwards; repeated / None / Ellipsis-like items; once in 15000 runs a tee child lagging 65541+ items."
    " Round 13: the tee may be given a plain (never suspending) lock."
)
COMPONENTS = COMPONENTS_BASE
ASSUMPTIONS = [
    "reference = the installed CPython 3.12.1 builtins/itertools/heapq on the same objects",
    "batched(strict=True) is compared with a 10-line model of the 3.13 semantics",
    "merge inputs are pre-sorted for the drawn key/direction; parameters are the valid ones",
    "documented deviations encoded: accumulate of empty input without initial -> TypeError; tee handle",
]
PROBES = ("tie_between_sources", "unequal_lengths", "cotenants>1", "ended_with_error", "tee_child_lagging_70000_items")


def compare_values(out, spec, run, ref):
    # what the consumer sees - and what the owner of a regular generator among the sources gets when it reads on afterwards
    # (not when the consumer asked again after the end: the stdlib's zip / compress then poll their first argument once
    # more - and take an item from it - where a finished generator does nothing)
    rest = () if spec.p.get("again") else ("rest",)
    a = project_values(run.log) + [ev for ev in run.log if ev[0] in rest]
    b = project_values(ref.log) + [ev for ev in ref.log if ev[0] in rest]
    pos = first_diff(a, b)
    if pos is not None:
        ea = a[pos] if pos < len(a) else None
        eb = b[pos] if pos < len(b) else None
        kind = "ending" if ((ea and ea[0] == "end") or (eb and eb[0] == "end")) else "items"
        out.violate("C01.differs_from_stdlib", (spec.tool, kind),
                    {"position": pos, "async": repr(ea), "stdlib": repr(eb), "scenario": spec.describe(),
                     "prepared_faults": [repr(f) for f in getattr(spec, "_faults", ()) if f is not None]})
        return False
    # the caller's objects are not modified (e.g. a reduction adding in place into the first item)
    before = getattr(spec, "_items_before", None)
    if before is not None and before != [ident(list(p.items)) for p in spec.srcs]:
        out.violate("C01.source_item_mutated", (spec.tool,), {"scenario": spec.describe(), "before": repr(before)})
        return False
    # identity of source items: the very same objects
    for x, y in zip(run.yields, ref.yields):
        if is_source_item(y) and x is not y:
            out.violate("C01.not_same_object", (spec.tool,), {"async": repr(x), "stdlib": repr(y)})
            return False
    return True


def execute(st, ctx):
    out = Outcome()
    ch = st.scenario
    cfg = draw_cfg(ch, huge=True)
    sim = new_sim(st)
    ntenants = 1 + ch.weighted([6, 3, 1])
    tenants = []
    for t in range(ntenants):
        spec, _ = gen_tool(st, cfg, prefix="abc"[t] if ntenants > 1 else "")
        steps = bounded_steps(ch, spec) if TOOLS[spec.tool].infinite else None
        if steps is None and ch.chance(1, 5):
            # the consumer stops early (and closes the iterator): every prefix of the stdlib's sequence is a result too
            steps = ch.draw(ref_tool(spec, None).n_steps_done + 1)
        if ch.chance(1, 5):
            # the consumer asks one or two more times after it has been told the end
            spec.p["again"] = ch.between(1, 2)
        run = Run(World(sim, own_log=True))
        spec._items_before = [ident(list(p.items)) for p in spec.srcs]
        faults = (None, None)
        if ch.chance(1, 6):
            # data that fails: one or two parties (sources, callables) prepared to raise at one of their uses;
            # the ending - which exception, after which items - must be the stdlib's
            base = ref_tool(spec, steps)
            silent = {p.name for p in spec.srcs if p.flavour not in LOGGING_FLAVOURS}  # plain containers cannot fail
            uses = [u for u in base.world.uses if u not in base.world.repolls and u[0] not in silent]
            if uses:
                k1 = st.faults.draw(len(uses))
                f1 = uses[k1] + (make_fault(st.faults.draw(len(FAULT_TYPES)), "fault@%d" % k1),)
                ended = {ev[1] for ev in base.world.log if ev[0] == "eos"}
                open_sources = sorted({u[0] for u in uses if u[0] not in base.world.fns and u[0] not in ended})
                if open_sources and st.faults.draw(4) == 3:
                    # ... or at the pull after the last one the stdlib makes of a source it has not seen the end of: a
                    # tool that reads further ahead than its counterpart runs into it
                    party = open_sources[st.faults.draw(len(open_sources))]
                    last = max(u[1] for u in uses if u[0] == party)
                    f1 = (party, last + 1, f1[2])
                    out.faults["source_fails_beyond_stdlib_last_pull"] = 1
                elif uses[k1][0] in base.world.fns and st.faults.draw(4) == 3:
                    # ... or at a use the stdlib never makes (one to three calls beyond its last call of that callable):
                    # a tool that calls its function more often than its counterpart runs into it
                    party = uses[k1][0]
                    last = max(u[1] for u in uses if u[0] == party)
                    f1 = (party, last + 1 + st.faults.draw(3), f1[2])
                f2 = None
                k2 = st.faults.draw(len(uses) + 1)
                if k2 and k2 - 1 != k1:
                    f2 = uses[k2 - 1] + (make_fault(st.faults.draw(len(FAULT_TYPES)), "second-fault@%d" % (k2 - 1)),)
                faults = (f1, f2)
                run.world.set_fault(*f1)
                run.world.fault2 = f2
                out.fault_free = False
                out.faults["party_raises"] = 1
                if f2 is not None:
                    out.faults["two_parties_prepared_to_fail"] = 1
        if faults[0] is not None:
            # after its end the stdlib twin may poll its inputs again where a finished generator does not (section 5 rule 2):
            # a fault prepared there would make the comparison one about re-polling
            spec.p.pop("again", None)
        spec._faults = faults
        sim.spawn(drive_tool(spec, run, steps, close=True))
        tenants.append((spec, steps, run))
    giant = None
    if ch.chance(1, 15000):
        # once in a long while a tee child lags very far behind its sibling (beyond any power-of-two buffer size one
        # might think of): it still gets every item, from the first one on
        n_items = 65536 + 5 + ch.draw(60)
        giant = {"items": n_items, "ahead": None, "behind_first": None, "behind_count": None}

        async def numbers():
            for i in range(n_items):
                yield i

        async def lagging():
            from ..tools import lib as _lib
            a, b = _lib().tee(numbers(), 2)
            count = 0
            async for _ in a:
                count += 1
            giant["ahead"] = count
            first, count = [], 0
            async for x in b:
                if count < 3:
                    first.append(x)
                count += 1
            giant["behind_first"], giant["behind_count"] = first, count

        sim.spawn(lagging())
    run_sim(sim)
    nontrivial = False
    if giant is not None and not (sim.capped or sim.deadlock):
        out.probes["tee_child_lagging_70000_items"] = 1
        if (giant["ahead"], giant["behind_first"], giant["behind_count"]) != (giant["items"], [0, 1, 2], giant["items"]):
            out.violate("C01.differs_from_stdlib", ("tee", "lagging child, long stream"), giant)
    for spec, steps, run in tenants:
        if sim.capped or sim.deadlock:
            break
        if run.end is None:
            out.violate("C01.consumer_did_not_finish", (spec.tool,), {"scenario": spec.describe()})
            continue
        ref = ref_tool(spec, steps, *spec._faults)
        compare_values(out, spec, run, ref)
        if (run.yields or run.end == "exc") and spec_nontrivial(spec):
            nontrivial = True
        if run.end == "exc":
            out.probes["ended_with_error"] = 1
        if len(spec.srcs) > 1:
            lens = {len(s.items) for s in spec.srcs}
            if len(lens) > 1:
                out.probes["unequal_lengths"] = 1
            keys = [set(i.key for i in s.items if type(i) is Item) for s in spec.srcs]
            if any(keys[i] & keys[j] for i in range(len(keys)) for j in range(i)):
                out.probes["tie_between_sources"] = 1
    if sim.deadlock:
        out.violate("C01.deadlock", (tenants[0][0].tool,), {})
    if ntenants > 1:
        out.probes["cotenants>1"] = 1
    out.nontrivial = nontrivial
    out.shape = tuple([spec.shape_key() for spec, _, _ in tenants])
    if ctx.want_sample:
        out.sample = {"config": cfg.describe(), "tenants": [
            {"spec": spec.describe(), "steps": steps,
             "async_result": [repr(e) for e in project_values(run.log)][:12]}
            for spec, steps, run in tenants]}
    if ctx.want_log:
        out.log = [run.log for _, _, run in tenants] + [sim.trace]
    return finish_outcome(out, st, sim, ctx)


def explore(st, ctx):
    return [execute(st, ctx)]
