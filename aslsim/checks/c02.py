"""
C02 - aggregations return the stdlib result and never alter their inputs.
"""

from ..actors import ResultObject, World, ident, is_source_item, make_fault, FAULT_TYPES, LOGGING_FLAVOURS
from ..runner import Outcome
from ..tools import AGGS, draw_cfg, Gen, AGG_NAMES, ABSENT, lib
from ..tooldiff import Run, drive_agg, ref_agg
from .common import COMPONENTS_BASE, run_sim, new_sim, finish_outcome, spec_nontrivial

PID = "C02"
LEVEL = "exploration"
BUDGET = {"quick": 300000, "thorough": 6000000}
RULE = (
    "each run draws a swarm configuration and 1..3 co-tenant scenarios: an aggregation (all any sum min max "
    "list tuple set dict sorted reduce nlargest nsmallest), key absent/sync/async, reverse, default, "
    "start/initial, n in 0..len+2, input as list / tuple / __getitem__ sequence / one-shot iterator / async "
    "stream, items with heavy ties, mixed numerics, unorderable / unhashable items; oracle: stdlib result "
    "(identity of selected elements, structural identity otherwise), same exception type, same sequence of "
    "key/reduction calls with argument identities, argument objects unchanged. Non-trivial: non-empty input "
    "with a tie, a callable or a non-default parameter, or an error ending; distinct by 64-bit hash of "
    "(aggregation, flavours, key sequences, callables, parameters)."
    " Extensions of rounds 9-12: items whose truth value cannot be taken; keys returning one shared None, NaN (min/max) or objects knowing only < and ==; one key function object used by two aggregations in a row with different return kinds."
    " Round 13: sum of strings onto a neutral start; per invocation, each aggregation's first use in a fresh interpreter (an awaitable object among the items) followed by an ordinary call."
)
COMPONENTS = COMPONENTS_BASE
ASSUMPTIONS = [
    "reference = CPython 3.12.1 builtins / functools.reduce / heapq on the same objects",
    "float inputs of sum are exactly representable binary fractions (CPython 3.12 uses compensated summation "
    "for floats - an accuracy detail outside the property)",
    "str start for sum and explicit None for optional parameters are outside the input domain",
]
PROBES = ("tie_present", "stdlib_raised", "empty_input_with_default", "key_used", "container_start", "one_key_function_two_calls", "first_use_in_a_fresh_process")


def snapshot(spec, run):
    snap = []
    if run.S is not None:
        for s in run.S:
            if type(s) in (list, tuple):
                snap.append(ident(s))
    for v in spec.p.values():
        if v is not ABSENT:
            snap.append(ident(v))
    return snap


def calls(log):
    return [e for e in log if e[0] == "call"]


def execute(st, ctx):
    out = Outcome()
    ch = st.scenario
    cfg = draw_cfg(ch, huge=True)
    sim = new_sim(st)
    ntenants = 1 + ch.weighted([6, 3, 1])
    tenants = []
    for t in range(ntenants):
        g = Gen(ch, cfg, "abc"[t] if ntenants > 1 else "")
        name = AGG_NAMES[ch.draw(len(AGG_NAMES))]
        spec = AGGS[name].gen(g)
        run = Run(World(sim, own_log=True))
        before = [ident(v) for v in spec.p.values() if v is not ABSENT]
        fault = None
        if ch.chance(1, 8):
            # data that fails: one party prepared to raise at one of its uses; callables may raise StopAsyncIteration
            # too - in the synchronous world an exception like any other, and aggregations are plain coroutines
            base = ref_agg(spec)
            silent = {p.name for p in spec.srcs if p.flavour not in LOGGING_FLAVOURS}
            uses = [u for u in base.world.uses if u not in base.world.repolls and u[0] not in silent]
            # (only if the data does not fail by itself: with two failures "which comes first" is not defined for
            # aggregations, sorted gathers all items before the first key call, asyncstdlib interleaves)
            if uses and base.end != "exc":
                k = st.faults.draw(len(uses))
                kind = st.faults.draw(len(FAULT_TYPES) + 2)
                party, idx = uses[k]
                if kind >= len(FAULT_TYPES) and party in base.world.fns:
                    exc = StopAsyncIteration("fault@%d" % k)
                else:
                    exc = make_fault(kind, "fault@%d" % k)
                fault = (party, idx, exc)
                run.world.set_fault(*fault)
                out.fault_free = False
                out.faults["party_raises"] = 1
        spec._faults = fault
        sim.spawn(drive_agg(spec, run))
        tenants.append((spec, run, before))
    shared = None
    if ch.chance(1, 10):
        # one callable object used as the key of two aggregations in a row: an ordinary function that returns awaitables
        # during one of them and plain values during the other (what it returns is up to each call, not to its history)
        import builtins
        import heapq

        g2 = Gen(ch, cfg, "k")
        lists = [g2.items(ch.between(1, 5)), g2.items(ch.between(1, 5))]
        which = [ch.draw(4), ch.draw(4)]
        first_mode = ch.draw(2)
        shared = {"got": [], "expected": [], "which": which, "awaitables_first": bool(first_mode),
                  "items": [[repr(i) for i in l] for l in lists]}
        mode = [first_mode]

        async def _value(v):
            return v

        def key(item):
            return _value(-item.key) if mode[0] else -item.key

        def plain_key(item):
            return -item.key

        L = lib()
        afns = (L.min, L.max, L.sorted, lambda it, key: L.heapq.nsmallest(it, 2, key=key))
        rfns = (builtins.min, builtins.max, builtins.sorted, lambda it, key: heapq.nsmallest(2, it, key=key))

        async def two_calls():
            for n in (0, 1):
                try:
                    shared["got"].append(ident(await afns[which[n]](list(lists[n]), key=key)))
                except Exception as err:
                    shared["got"].append(("raised", type(err).__name__, str(err)[:80]))
                shared["expected"].append(ident(rfns[which[n]](list(lists[n]), key=plain_key)))
                mode[0] = 1 - mode[0]

        sim.spawn(two_calls())
    run_sim(sim)
    nontrivial = False
    if shared is not None and not (sim.capped or sim.deadlock):
        out.probes["one_key_function_two_calls"] = 1
        if shared["got"] != shared["expected"]:
            out.violate("C02.callable_kind_remembered_between_calls", (("min", "max", "sorted", "nsmallest")[shared["which"][1]],),
                        shared)
    for spec, run, before in tenants:
        if sim.capped or sim.deadlock:
            break
        tool = spec.tool
        if run.end is None:
            out.violate("C02.did_not_finish", (tool,), {"scenario": spec.describe()})
            continue
        ref = ref_agg(spec, spec._faults)
        if ref.end == "exc":
            out.probes["stdlib_raised"] = 1
        if spec._faults is not None and ref.exc is spec._faults[2] and run.exc is not ref.exc:
            out.violate("C02.prepared_failure_not_propagated", (tool, type(ref.exc).__name__),
                        {"async": repr(run.exc or run.value), "stdlib": repr(ref.exc), "fault": repr(spec._faults[:2]),
                         "scenario": spec.describe()})
            continue
        if run.end != ref.end:
            out.violate("C02.ending_differs", (tool, "async:" + run.end, "stdlib:" + ref.end),
                        {"async": repr(run.exc or run.value), "stdlib": repr(ref.exc or ref.value),
                         "scenario": spec.describe()})
        elif run.end == "exc":
            if type(run.exc) is not type(ref.exc):
                out.violate("C02.exception_type_differs", (tool, type(run.exc).__name__, type(ref.exc).__name__),
                            {"scenario": spec.describe()})
        else:
            ia, ib = ident(run.value), ident(ref.value)
            same_type = type(run.value) is type(ref.value) or (
                isinstance(run.value, ResultObject) and isinstance(ref.value, ResultObject))  # per-world classes
            if not same_type or ia != ib:
                kind = "type" if not same_type else "value"
                out.violate("C02.result_differs", (tool, kind),
                            {"async": repr(run.value), "stdlib": repr(ref.value), "scenario": spec.describe()})
            elif is_source_item(ref.value) and run.value is not ref.value:
                out.violate("C02.not_same_object", (tool,), {"scenario": spec.describe()})
            ca, cb = calls(run.log), calls(ref.log)
            if ca != cb:
                out.violate("C02.callable_invocations_differ", (tool,),
                            {"async": [repr(e) for e in ca][:20], "stdlib": [repr(e) for e in cb][:20],
                             "scenario": spec.describe()})
        # inputs untouched
        after = [ident(v) for v in spec.p.values() if v is not ABSENT]
        if after != before:
            out.violate("C02.argument_mutated", (tool, "parameter"),
                        {"before": repr(before), "after": repr(after), "scenario": spec.describe()})
        for s, plan in zip(run.S or (), spec.srcs):
            if type(s) in (list, tuple) and ident(s) != ident(type(s)(plan.items)):
                out.violate("C02.argument_mutated", (tool, "input"), {"scenario": spec.describe()})
        items = spec.srcs[0].items
        keys = [i.key for i in items if hasattr(i, "key")]
        if len(keys) != len(set(keys)):
            out.probes["tie_present"] = 1
        if not items and spec.p.get("default", ABSENT) is not ABSENT:
            out.probes["empty_input_with_default"] = 1
        if any(f is not None for f in spec.fns):
            out.probes["key_used"] = 1
        if type(spec.p.get("start", None)) in (list, tuple):
            out.probes["container_start"] = 1
        if (items and spec_nontrivial(spec)) or run.end == "exc":
            nontrivial = True
    if sim.deadlock:
        out.violate("C02.deadlock", (tenants[0][0].tool,), {})
    out.nontrivial = nontrivial
    out.shape = tuple([spec.shape_key() for spec, _, _ in tenants])
    if ctx.want_sample:
        out.sample = {"config": cfg.describe(), "tenants": [
            {"spec": spec.describe(), "async_end": run.end, "async_value": repr(run.value), "async_exc": repr(run.exc)}
            for spec, run, _ in tenants]}
    if ctx.want_log:
        out.log = [run.log for _, run, _ in tenants] + [sim.trace]
    return finish_outcome(out, st, sim, ctx)


def explore(st, ctx):
    return [execute(st, ctx)]


# --------------------------------------------------------------------------- first use in a fresh process
FRESH_SRC = r"""
import sys, json
sys.path.insert(0, %(verif)r)
sys.dont_write_bytecode = True
from aslsim.runner import setup_repo_path
setup_repo_path()
import asyncstdlib as a
from aslsim.loop import drive_sync


class Handle:
    # a data item that happens to be awaitable (a job handle): nobody is to await it
    def __init__(self, n):
        self.n = n
    def __await__(self):
        raise AssertionError("a data item was awaited")
        yield
    def __lt__(self, other):
        return self.n < other.n


h1, h2 = Handle(1), Handle(2)
CASES = {
    "min": (lambda: a.min([h1, h2]), lambda r: r is h1, lambda: a.min([3, 1, 2]), 1),
    "max": (lambda: a.max([h1, h2]), lambda r: r is h2, lambda: a.max([3, 1, 2]), 3),
    "min_default": (lambda: a.min([h1], default=None), lambda r: r is h1, lambda: a.min([], default=7), 7),
    "min_key": (lambda: a.min([h2, h1], key=lambda x: x.n), lambda r: r is h1, lambda: a.min([3, 1, 2], key=lambda x: -x), 3),
    "max_key": (lambda: a.max([h2, h1], key=lambda x: x.n), lambda r: r is h2, lambda: a.max([3, 1, 2], key=lambda x: -x), 1),
    "sorted": (lambda: a.sorted([h2, h1]), lambda r: r == [h1, h2], lambda: a.sorted([3, 1, 2]), [1, 2, 3]),
    "nsmallest": (lambda: a.heapq.nsmallest([h2, h1], 1), lambda r: r == [h1], lambda: a.heapq.nsmallest([3, 1, 2], 2), [1, 2]),
    "nlargest": (lambda: a.heapq.nlargest([h2, h1], 1), lambda r: r == [h2], lambda: a.heapq.nlargest([3, 1, 2], 2), [3, 2]),
    "list": (lambda: a.list([h1, 5]), lambda r: r == [h1, 5], lambda: a.list(iter([3, 1])), [3, 1]),
    "all": (lambda: a.all([h1, 1]), lambda r: r is True, lambda: a.all([1, 0]), False),
    "any": (lambda: a.any([0, h1]), lambda r: r is True, lambda: a.any([0, 0]), False),
    "sum": (lambda: a.sum([1, 2]), lambda r: r == 3, lambda: a.sum([1.5, 2], 1), 4.5),
}
first, ok_first, second, want = CASES[%(case)r]
out = {"case": %(case)r}
susp, value, err = drive_sync(first())
out["first"] = ("raised %%r" %% (err,)) if err is not None else ("suspended" if susp else ("ok" if ok_first(value) else "wrong result %%r" %% (value,)))
susp, value, err = drive_sync(second())
out["second"] = ("raised %%r" %% (err,)) if err is not None else ("suspended" if susp else ("ok" if (value == want and type(value) is type(want)) else "wrong result %%r" %% (value,)))
print("FRESH " + json.dumps(out))
"""


def extra_checks(verif_seed, tier):
    """
    Once per invocation: every aggregation's *first use in a fresh interpreter* sees an awaitable object among its items
    (data: nobody is to await it) and is followed by an ordinary call - whatever the library decides about its helpers
    on first use must not outlive that call.
    """
    import json
    import os
    import subprocess
    import sys

    from ..runner import VERIF_DIR

    cases = ("min", "max", "min_default", "min_key", "max_key", "sorted", "nsmallest", "nlargest", "list", "all", "any", "sum")
    bad = []
    for case in cases:
        src = FRESH_SRC % {"verif": VERIF_DIR, "case": case}
        proc = subprocess.run([sys.executable, "-B", "-c", src], capture_output=True, text=True, env=dict(os.environ),
                              cwd=VERIF_DIR, timeout=300)
        info = None
        for line in proc.stdout.splitlines():
            if line.startswith("FRESH "):
                info = json.loads(line[6:])
        if info is None:
            return {"error": "fresh-process probe %s failed: %s" % (case, proc.stderr[-1200:])}
        if info["first"] != "ok" or info["second"] != "ok":
            bad.append(info)
    res = {"probes": {"first_use_in_a_fresh_process": 1}, "evaluations": len(cases), "info": {"cases": len(cases), "bad": bad}}
    if bad:
        res["violation"] = {"clause": "C02.first_use_in_a_fresh_process_differs", "sig": [bad[0]["case"]],
                            "detail": {"cases": bad}}
    return res
