"""
C03 - async neutrality: sync and async arguments are interchangeable.

Metamorphic check inside the simulator: the same scenario is executed twice as two tasks of one
loop - baseline (every iterable a list, every callable a plain def) and flavoured (every iterable
and callable parameter independently one of the 9 / 5 flavours, with suspensions).  Results must
be identical; the object each public callable returns must be awaitable / an async iterator.
"""

from ..actors import World, SrcPlan, FnPlan, ident, is_source_item, FAULT_TYPES, make_fault, LOGGING_FLAVOURS
from ..runner import Outcome
from ..tools import TOOLS, AGGS, TOOL_NAMES, AGG_NAMES, Gen, Spec, draw_cfg, lib, ABSENT
from ..tooldiff import Run, drive_tool, drive_agg, project_values, first_diff, build_async, _objs
from .common import COMPONENTS_BASE, run_sim, new_sim, finish_outcome, bounded_steps, spec_nontrivial

PID = "C03"
LEVEL = "exploration"
BUDGET = {"quick": 200000, "thorough": 4000000}
RULE = (
    "each run draws 1..2 scenarios (tool of C01 incl. groupby, or aggregation of C02; one run in six an ExitStack with 1..4 pushed exit callables / callbacks instead; items with "
    "ties / unorderable / unhashable members; sums over inexact floats, str and bytes; one scenario in ten with an "
    "iterable whose __iter__/__aiter__ itself raises) and executes each twice in one simulated loop: baseline (lists + "
    "def callables) vs flavoured (each iterable parameter independently list / tuple / __getitem__ sequence / "
    "one-shot iterator / async generator / class-based async iterator with or without aclose / async iterable / "
    "async generator protocol object; each callable def / async def / partial(async def) / object returning a "
    "coroutine / object returning a hand-written awaitable; suspensions 0..3 per use). Oracle: identical yielded "
    "items (same objects), return value and exception type; the returned object is an async iterator "
    "(__aiter__+__anext__) or awaitable (__await__) before it is used. Non-trivial: >=1 non-list iterable or "
    "non-def callable and (>=1 item or an error); distinct = distinct (scenario incl. flavours) by 64-bit hash."
    " Extensions of rounds 9-12: a callable prepared to fail at one of its first calls, optionally together with a source prepared to fail (same flavour in both runs)."
)
COMPONENTS = COMPONENTS_BASE
ASSUMPTIONS = [
    "both executions share the item objects; derived values are compared structurally",
    "one run in six exercises ExitStack.push/callback with exit callables of all five flavours; groupby key flavours "
    "are also covered by the tool table (groupby is one of the tools); asynctools shapes in C19",
]
PROBES = ("mixed_flavours_in_one_call", "async_callable", "partial_or_object_callable", "class_based_source",
          "error_outcome", "aggregation", "tool", "exit_callbacks", "iterable_fails_to_open")
NAMES = TOOL_NAMES + AGG_NAMES


_FLOATS = (0.1, 0.2, 0.3, 0.7, 1e100, 1.0, -1e100, 1e16, -1e16, 3.3)


def tricky_sum(g):
    """sum over data where *how* one adds matters: inexact floats (left-to-right vs compensated), str / bytes
    (the builtin refuses a str start); whatever the library does, it does it for every flavour alike"""
    ch = g.ch
    mode = ch.draw(4)
    n = ch.draw(11)
    if mode <= 1:
        items = [_FLOATS[ch.draw(len(_FLOATS))] for _ in range(n)]
        if mode == 1 and n:
            items = [items[0]] * n
        start = (ABSENT, 0.0, 0.1, 0)[ch.draw(4)]
    elif mode == 2:
        items = [("a", "b", "", "cd")[ch.draw(4)] for _ in range(min(n, 4))]
        start = ("", "x")[ch.draw(2)]
    else:
        items = [(b"a", b"b", b"")[ch.draw(3)] for _ in range(min(n, 4))]
        start = (b"", b"x")[ch.draw(2)]
    return Spec("sum", [g.src(items)], [], {"start": start})


_ITER_FAULT_FLAVOURS = ("sync_iter", "aiter_cls", "aiter_noclose", "aiterable", "aiter_full", "set_abc")


def failing_iter(ch, spec):
    """One iterable argument whose __iter__ / __aiter__ itself raises (a stream that cannot be opened)"""
    if not spec.srcs or spec.p.get("alias") or (spec.tool == "chain" and spec.p.get("form") == 2):
        return
    p = spec.srcs[ch.draw(len(spec.srcs))]
    if spec.tool == "tee":
        spec.p["carry_on"] = False
    p.flavour = _ITER_FAULT_FLAVOURS[ch.draw(len(_ITER_FAULT_FLAVOURS))]
    p.iter_fault = FAULT_TYPES[ch.draw(len(FAULT_TYPES))]


def baseline_of(spec, keep=()):
    alias = spec.p.get("alias")
    # an iterable that cannot be opened keeps its flavour in the baseline: *when* it is opened differs between sync
    # (lazily adapted) and async (eager) iterables by design, so the comparison varies the flavours of everything else
    # (likewise a source that is prepared to fail at one of its pulls: a plain list cannot fail)
    srcs = [SrcPlan(p.name, p.items, p.flavour if (p.iter_fault is not None or p.name in keep) else
                    ("sync_iter" if (alias and n == alias[0]) else "list"),
                    p.suspend if (p.iter_fault is not None or p.name in keep) else (), iter_fault=p.iter_fault)
            for n, p in enumerate(spec.srcs)]
    # a class used as the callable is a synchronous callable giving instances: it has no "async twin", both runs use it
    fns = [FnPlan(p.name, p.kind, p.param, "cls_async_call" if p.flavour == "cls_async_call" else "def")
           if p is not None else None for p in spec.fns]
    base = Spec(spec.tool, srcs, fns, spec.p)
    return base


def type_ok(obj, is_agg):
    if is_agg:
        return hasattr(obj, "__await__")
    return hasattr(obj, "__anext__") and hasattr(obj, "__aiter__")


# --------------------------------------------------------------------------- exit callbacks of ExitStack
EXIT_FLAVOURS = ("def", "async", "partial_async", "obj_coro", "obj_awaitable")


class _StackError(Exception):
    def __init__(self, tag):
        Exception.__init__(self, tag)
        self.tag = tag


class _HandAw:
    """Awaitable that is not a coroutine: suspends n times, then runs the deferred call"""

    def __init__(self, sim, n, call):
        self.sim, self.n, self.call = sim, n, call

    def __await__(self):
        from ..loop import PAUSE
        for _ in range(self.n):
            yield from self.sim.suspend(PAUSE, None, "exit").__await__()
        return self.call()


def gen_stack(ch):
    sc = {"entries": [], "block_raises": ch.chance(1, 2)}
    for i in range(ch.between(1, 4)):
        sc["entries"].append({"name": "e%d" % i, "method": ("push", "callback", "enter")[ch.weighted([3, 3, 2])],
                              "enter_fails": ch.chance(1, 6),
                              "flavour": EXIT_FLAVOURS[ch.draw(len(EXIT_FLAVOURS))],
                              "behave": ("falsy", "truthy", "raise")[ch.weighted([4, 2, 1])], "susp": ch.draw(3)})
    return sc


async def run_stack(sc, sim, flavoured, log, res):
    import functools
    from ..loop import PAUSE
    L = lib()

    def logic(e, exc, args):
        log.append(("exit", e["name"], getattr(exc, "tag", None) if exc is not None else None, args))
        if e["behave"] == "truthy":
            return True
        if e["behave"] == "raise":
            raise _StackError(("exit", e["name"]))
        return False

    def make(e):
        fl = e["flavour"] if flavoured else "def"
        is_cb = e["method"] == "callback"

        def seen(args, kw):
            # what a callback is handed: its positional and keyword arguments (an exit: nothing to record here)
            return (args, tuple(sorted(kw.items()))) if is_cb else ()

        def plain(*args, **kw):
            return logic(e, None if is_cb else args[1], seen(args, kw))

        async def coro(*args, **kw):
            for _ in range(e["susp"]):
                await sim.suspend(PAUSE, None, "exit")
            return logic(e, None if is_cb else args[1], seen(args, kw))

        class Obj:
            def __call__(self, /, *args, **kw):
                return coro(*args, **kw)

        class ObjAw:
            def __call__(self, /, *args, **kw):
                return _HandAw(sim, e["susp"], lambda: logic(e, None if is_cb else args[1], seen(args, kw)))

        if fl == "def":
            return plain
        if fl == "async":
            return coro
        if fl == "partial_async":
            async def coro2(_marker, *args, **kw):
                return await coro(*args, **kw)
            return functools.partial(coro2, None)
        if fl == "obj_coro":
            return Obj()
        return ObjAw()

    def make_cm(e):
        # the same context manager, as a plain one (baseline) or an asynchronous one (flavoured)
        class SyncCM:
            def __enter__(self):
                log.append(("enter", e["name"]))
                if e["enter_fails"]:
                    raise _StackError(("enter", e["name"]))
                return e["name"]

            def __exit__(self, et, ev, tb):
                return logic(e, ev, ())

        class AsyncCM:
            async def __aenter__(self):
                for _ in range(e["susp"]):
                    await sim.suspend(PAUSE, None, "enter")
                log.append(("enter", e["name"]))
                if e["enter_fails"]:
                    raise _StackError(("enter", e["name"]))
                return e["name"]

            async def __aexit__(self, et, ev, tb):
                for _ in range(e["susp"]):
                    await sim.suspend(PAUSE, None, "exit")
                return logic(e, ev, ())

        return AsyncCM() if (flavoured and e["flavour"] != "def") else SyncCM()

    try:
        stack = L.ExitStack()
        res["type_ok"] = hasattr(stack, "__aenter__") and hasattr(stack, "__aexit__")
        async with stack:
            for e in sc["entries"]:
                if e["method"] == "enter":
                    got = await stack.enter_context(make_cm(e))
                    if got != e["name"]:
                        res["type_ok"] = False
                    continue
                fn = make(e)
                if e["method"] == "push":
                    back = stack.push(fn)
                else:
                    if e["susp"] % 2:
                        back = stack.callback(fn, e["name"], 7, flag=e["name"], mode=e["susp"])
                    else:
                        back = stack.callback(fn, flag=e["name"])  # keyword arguments only
                if back is not fn:
                    res["type_ok"] = False
            log.append(("body",))
            if sc["block_raises"]:
                raise _StackError("block")
        res["end"] = ("completed",)
    except _StackError as err:
        res["end"] = ("raised", err.tag)


def execute(st, ctx):
    out = Outcome()
    ch = st.scenario
    sel = ch.draw(12)
    if sel < 2:
        return execute_stack(st, ctx, out)
    if sel == 2:
        return execute_sync(st, ctx, out)
    return execute_tools(st, ctx, out)


def execute_sync(st, ctx, out):
    """asynctools.sync: the same callable in different flavours - including one that answers with an awaitable
    on some calls only - called repeatedly through one wrapper gives the same results"""
    from ..loop import PAUSE
    ch = st.scenario
    pattern = [ch.draw(2) for _ in range(ch.between(2, 5))]
    susp = ch.draw(3)
    sim = new_sim(st)
    L = lib()
    results = {}

    def value(k):
        return ("r", k)

    async def coro(k):
        for _ in range(susp):
            await sim.suspend(PAUSE, None, "fn")
        return value(k)

    def plain(k):
        return value(k)

    def sometimes(k):
        return coro(k) if pattern[k % len(pattern)] else value(k)

    class Obj:
        def __call__(self, k):
            return coro(k)

    flavours = {"def": plain, "sometimes_awaitable": sometimes, "callable_object": Obj(), "async_def": coro}

    async def run(name, fn):
        wrapped = L.sync(fn)
        got = []
        for k in range(len(pattern)):
            aw = wrapped(k)
            if not hasattr(aw, "__await__"):
                got.append(("plain_value", repr(aw)))
                continue
            try:
                got.append(("ok", await aw))
            except Exception as err:  # noqa
                got.append(("raised", type(err).__name__))
        results[name] = got

    for name, fn in flavours.items():
        sim.spawn(run(name, fn))
    run_sim(sim)
    if sim.deadlock:
        out.violate("C03.deadlock", ("sync",), {})
    elif not sim.capped:
        base = results.get("def")
        for name in flavours:
            if results.get(name) != base:
                out.violate("C03.result_depends_on_flavour", ("sync", name),
                            {"pattern": pattern, "baseline": repr(base), name: repr(results.get(name))})
                break
    out.probes["async_callable"] = 1
    out.nontrivial = len(set(pattern)) == 2
    out.shape = ("sync", tuple(pattern), susp)
    if ctx.want_sample:
        out.sample = {"kind": "asynctools.sync flavours", "pattern": pattern, "results": {k: repr(v) for k, v in results.items()}}
    if ctx.want_log:
        out.log = [sorted((k, repr(v)) for k, v in results.items()), sim.trace]
    return finish_outcome(out, st, sim, ctx)


def execute_stack(st, ctx, out):
    ch = st.scenario
    sc = gen_stack(ch)
    sim = new_sim(st)
    logs = ([], [])
    ress = ({}, {})
    sim.spawn(run_stack(sc, sim, False, logs[0], ress[0]))
    sim.spawn(run_stack(sc, sim, True, logs[1], ress[1]))
    run_sim(sim)

    def describe():
        return {"kind": "ExitStack exit callbacks", "scenario": sc,
                "baseline": {"log": [repr(e) for e in logs[0]], "end": repr(ress[0].get("end"))},
                "flavoured": {"log": [repr(e) for e in logs[1]], "end": repr(ress[1].get("end"))}}

    if sim.deadlock:
        out.violate("C03.deadlock", ("ExitStack",), describe())
    elif not sim.capped:
        if "end" not in ress[0] or "end" not in ress[1]:
            errs = [repr(t.error) for t in sim.tasks]
            out.violate("C03.did_not_finish", ("ExitStack",), dict(describe(), errors=errs))
        elif logs[0] != logs[1] or ress[0]["end"] != ress[1]["end"]:
            out.violate("C03.result_depends_on_flavour", ("ExitStack", "exit_callbacks"), describe())
        if ress[1].get("type_ok") is False:
            out.violate("C03.returns_plain_value", ("ExitStack", "flavoured"), describe())
    fl = {e["flavour"] for e in sc["entries"]}
    if fl - {"def"}:
        out.probes["async_callable"] = 1
    if fl & {"partial_async", "obj_coro", "obj_awaitable"}:
        out.probes["partial_or_object_callable"] = 1
    out.probes["exit_callbacks"] = 1
    out.nontrivial = bool(fl - {"def"})
    out.shape = ("stack", tuple(tuple(sorted(e.items())) for e in sc["entries"]), sc["block_raises"])
    if ctx.want_sample:
        out.sample = describe()
    if ctx.want_log:
        out.log = [logs, repr(ress), sim.trace]
    return finish_outcome(out, st, sim, ctx)


def execute_tools(st, ctx, out):
    ch = st.scenario
    cfg = draw_cfg(ch)
    sim = new_sim(st)
    n = 1 + ch.weighted([3, 1])
    tenants = []
    for t in range(n):
        g = Gen(ch, cfg, "ab"[t] if n > 1 else "")
        name = NAMES[ch.draw(len(NAMES))]
        is_agg = name in AGGS
        spec = (AGGS if is_agg else TOOLS)[name].gen(g)
        if name == "sum" and ch.chance(1, 2):
            spec = tricky_sum(g)
        faults = None
        if ch.chance(1, 10):
            failing_iter(ch, spec)
        elif ch.chance(1, 8) and any(f is not None for f in spec.fns) and not spec.p.get("alias") \
                and not (spec.tool == "chain" and spec.p.get("form") == 2) and not spec.p.get("nested"):
            # a callable prepared to fail at one of its first calls - and, half of the time, a source prepared to fail at
            # one of its pulls as well (that source has one flavour in both runs): whichever failure the one assignment
            # of flavours lets out, every other assignment lets out too
            fn = [f for f in spec.fns if f is not None][0]
            f1 = (fn.name, ch.draw(3), make_fault(ch.draw(len(FAULT_TYPES)), "callable-fault"))
            f2 = None
            cands = [p for p in spec.srcs if p.flavour in LOGGING_FLAVOURS]
            if cands and ch.chance(1, 2):
                p = cands[ch.draw(len(cands))]
                f2 = (p.name, ch.draw(len(p.items) + 2), make_fault(ch.draw(len(FAULT_TYPES)), "source-fault"))
            faults = (f1, f2)
            if spec.tool == "tee":
                spec.p["carry_on"] = False
        base = baseline_of(spec, keep=(faults[1][0],) if faults and faults[1] else ())
        steps = None
        if not is_agg and TOOLS[name].infinite:
            steps = bounded_steps(ch, spec)
        runs = []
        for sp in (base, spec):
            run = Run(World(sim, own_log=True))
            if faults is not None:
                run.world.set_fault(*faults[0])
                run.world.fault2 = faults[1]
                out.faults["callable_prepared_to_fail"] = 1
                out.fault_free = False
            if is_agg:
                sim.spawn(drive_agg(sp, run))
            else:
                sim.spawn(drive_tool(sp, run, steps, close=True))
            runs.append(run)
        tenants.append((spec, is_agg, steps, runs))
    run_sim(sim)
    nontrivial = False
    for spec, is_agg, steps, (rb, rf) in tenants:
        if sim.capped or sim.deadlock:
            break
        tool = spec.tool

        def describe():
            return {"scenario": spec.describe(), "steps": steps,
                    "baseline": [repr(e) for e in project_values(rb.log)][:14],
                    "flavoured": [repr(e) for e in project_values(rf.log)][:14]}

        if rb.end is None or rf.end is None:
            out.violate("C03.did_not_finish", (tool,), describe())
            continue
        for run, which in ((rb, "baseline"), (rf, "flavoured")):
            if run.it is not None and not type_ok(run.it, is_agg):
                out.violate("C03.returns_plain_value", (tool, which), dict(describe(), returned=type(run.it).__name__))
        a, b = project_values(rb.log), project_values(rf.log)
        pos = first_diff(a, b)
        failing = [p for p in spec.srcs if p.iter_fault is not None]
        if failing:
            # (the failing iterable has the same flavour in both runs, so both open it at the same moment)
            out.probes["iterable_fails_to_open"] = 1
            opened = [any(e[0] == "iter_raise" for e in r.log) for r in (rb, rf)]
            if all(opened) and pos is None:
                want = ("end", "exc", failing[0].iter_fault.__name__)
                if not b or b[-1] != want:
                    out.violate("C03.result_depends_on_flavour", (tool, "open_failure_replaced"),
                                dict(describe(), expected_ending=repr(want)))
        if pos is not None:
            ea = a[pos] if pos < len(a) else None
            eb = b[pos] if pos < len(b) else None
            kind = "ending" if ((ea and ea[0] == "end") or (eb and eb[0] == "end")) else "items"
            out.violate("C03.result_depends_on_flavour", (tool, kind), dict(describe(), position=pos))
        elif not is_agg:
            for x, y in zip(rb.yields, rf.yields):
                if is_source_item(x) and x is not y:
                    out.violate("C03.not_same_object", (tool,), describe())
                    break
        elif rb.has_value and is_source_item(rb.value) and rb.value is not rf.value:
            out.violate("C03.not_same_object", (tool,), describe())
        flavs = {p.flavour for p in spec.srcs}
        fflavs = {p.flavour for p in spec.fns if p is not None}
        if len(flavs) > 1:
            out.probes["mixed_flavours_in_one_call"] = 1
        if fflavs - {"def"}:
            out.probes["async_callable"] = 1
        if fflavs & {"partial_async", "obj_coro", "obj_awaitable"}:
            out.probes["partial_or_object_callable"] = 1
        if flavs & {"aiter_cls", "aiter_noclose", "aiter_full", "aiterable"}:
            out.probes["class_based_source"] = 1
        if rf.end == "exc":
            out.probes["error_outcome"] = 1
        out.probes["aggregation" if is_agg else "tool"] = 1
        if ((flavs - {"list"}) or (fflavs - {"def"})) and (rf.yields or rf.end in ("exc", "value")):
            nontrivial = True
    if sim.deadlock:
        out.violate("C03.deadlock", (tenants[0][0].tool,), {})
    out.nontrivial = nontrivial
    out.shape = tuple([(spec.shape_key(), tuple(p.flavour for p in spec.fns if p is not None)) for spec, _, _, _ in tenants])
    if ctx.want_sample:
        spec, is_agg, steps, (rb, rf) = tenants[0]
        out.sample = {"scenario": spec.describe(), "steps": steps,
                      "baseline": [repr(e) for e in project_values(rb.log)][:10],
                      "flavoured": [repr(e) for e in project_values(rf.log)][:10]}
    if ctx.want_log:
        out.log = [[rb.log, rf.log] for _, _, _, (rb, rf) in tenants] + [sim.trace]
    return finish_outcome(out, st, sim, ctx)


def explore(st, ctx):
    return [execute(st, ctx)]
