"""
C03 - async neutrality: sync and async arguments are interchangeable.

Metamorphic check inside the simulator: the same scenario is executed twice as two tasks of one
loop - baseline (every iterable a list, every callable a plain def) and flavoured (every iterable
and callable parameter independently one of the 9 / 5 flavours, with suspensions).  Results must
be identical; the object each public callable returns must be awaitable / an async iterator.
"""

from ..actors import World, SrcPlan, FnPlan, ident, is_source_item
from ..runner import Outcome
from ..tools import TOOLS, AGGS, TOOL_NAMES, AGG_NAMES, Gen, Spec, draw_cfg, lib
from ..tooldiff import Run, drive_tool, drive_agg, project_values, first_diff, build_async, _objs
from .common import COMPONENTS_BASE, run_sim, new_sim, finish_outcome, bounded_steps, spec_nontrivial

PID = "C03"
LEVEL = "exploration"
BUDGET = {"quick": 200000, "thorough": 4000000}
RULE = (
    "each run draws 1..2 scenarios (tool of C01 or aggregation of C02 incl. groupby-free parameters, items with "
    "ties / unorderable / unhashable members) and executes each twice in one simulated loop: baseline (lists + "
    "def callables) vs flavoured (each iterable parameter independently list / tuple / __getitem__ sequence / "
    "one-shot iterator / async generator / class-based async iterator with or without aclose / async iterable / "
    "async generator protocol object; each callable def / async def / partial(async def) / object returning a "
    "coroutine / object returning a hand-written awaitable; suspensions 0..3 per use). Oracle: identical yielded "
    "items (same objects), return value and exception type; the returned object is an async iterator "
    "(__aiter__+__anext__) or awaitable (__await__) before it is used. Non-trivial: >=1 non-list iterable or "
    "non-def callable and (>=1 item or an error); distinct = distinct (scenario incl. flavours) by 64-bit hash."
)
COMPONENTS = COMPONENTS_BASE
ASSUMPTIONS = [
    "both executions share the item objects; derived values are compared structurally",
    "exit callbacks of ExitStack (sync vs async kinds) are compared against the nested statement in C14; "
    "groupby key flavours in C16; asynctools shapes in C19",
]
PROBES = ("mixed_flavours_in_one_call", "async_callable", "partial_or_object_callable", "class_based_source",
          "error_outcome", "aggregation", "tool")
NAMES = TOOL_NAMES + AGG_NAMES


def baseline_of(spec):
    srcs = [SrcPlan(p.name, p.items, "list") for p in spec.srcs]
    fns = [FnPlan(p.name, p.kind, p.param, "def") if p is not None else None for p in spec.fns]
    base = Spec(spec.tool, srcs, fns, spec.p)
    return base


def type_ok(obj, is_agg):
    if is_agg:
        return hasattr(obj, "__await__")
    return hasattr(obj, "__anext__") and hasattr(obj, "__aiter__")


def execute(st, ctx):
    out = Outcome()
    ch = st.scenario
    cfg = draw_cfg(ch)
    sim = new_sim(st)
    n = 1 + ch.weighted([3, 1])
    tenants = []
    for t in range(n):
        g = Gen(ch, cfg, "ab"[t] if n > 1 else "")
        name = NAMES[ch.draw(len(NAMES))]
        is_agg = name in AGGS
        spec = (AGGS if is_agg else TOOLS)[name].gen(g)
        base = baseline_of(spec)
        steps = None
        if not is_agg and TOOLS[name].infinite:
            steps = bounded_steps(ch, spec)
        runs = []
        for sp in (base, spec):
            run = Run(World(sim, own_log=True))
            if is_agg:
                sim.spawn(drive_agg(sp, run))
            else:
                sim.spawn(drive_tool(sp, run, steps, close=True))
            runs.append(run)
        tenants.append((spec, is_agg, steps, runs))
    run_sim(sim)
    nontrivial = False
    for spec, is_agg, steps, (rb, rf) in tenants:
        if sim.capped or sim.deadlock:
            break
        tool = spec.tool

        def describe():
            return {"scenario": spec.describe(), "steps": steps,
                    "baseline": [repr(e) for e in project_values(rb.log)][:14],
                    "flavoured": [repr(e) for e in project_values(rf.log)][:14]}

        if rb.end is None or rf.end is None:
            out.violate("C03.did_not_finish", (tool,), describe())
            continue
        for run, which in ((rb, "baseline"), (rf, "flavoured")):
            if run.it is not None and not type_ok(run.it, is_agg):
                out.violate("C03.returns_plain_value", (tool, which), dict(describe(), returned=type(run.it).__name__))
        a, b = project_values(rb.log), project_values(rf.log)
        pos = first_diff(a, b)
        if pos is not None:
            ea = a[pos] if pos < len(a) else None
            eb = b[pos] if pos < len(b) else None
            kind = "ending" if ((ea and ea[0] == "end") or (eb and eb[0] == "end")) else "items"
            out.violate("C03.result_depends_on_flavour", (tool, kind), dict(describe(), position=pos))
        elif not is_agg:
            for x, y in zip(rb.yields, rf.yields):
                if is_source_item(x) and x is not y:
                    out.violate("C03.not_same_object", (tool,), describe())
                    break
        elif rb.has_value and is_source_item(rb.value) and rb.value is not rf.value:
            out.violate("C03.not_same_object", (tool,), describe())
        flavs = {p.flavour for p in spec.srcs}
        fflavs = {p.flavour for p in spec.fns if p is not None}
        if len(flavs) > 1:
            out.probes["mixed_flavours_in_one_call"] = 1
        if fflavs - {"def"}:
            out.probes["async_callable"] = 1
        if fflavs & {"partial_async", "obj_coro", "obj_awaitable"}:
            out.probes["partial_or_object_callable"] = 1
        if flavs & {"aiter_cls", "aiter_noclose", "aiter_full", "aiterable"}:
            out.probes["class_based_source"] = 1
        if rf.end == "exc":
            out.probes["error_outcome"] = 1
        out.probes["aggregation" if is_agg else "tool"] = 1
        if ((flavs - {"list"}) or (fflavs - {"def"})) and (rf.yields or rf.end in ("exc", "value")):
            nontrivial = True
    if sim.deadlock:
        out.violate("C03.deadlock", (tenants[0][0].tool,), {})
    out.nontrivial = nontrivial
    out.shape = tuple([(spec.shape_key(), tuple(p.flavour for p in spec.fns if p is not None)) for spec, _, _, _ in tenants])
    if ctx.want_sample:
        spec, is_agg, steps, (rb, rf) = tenants[0]
        out.sample = {"scenario": spec.describe(), "steps": steps,
                      "baseline": [repr(e) for e in project_values(rb.log)][:10],
                      "flavoured": [repr(e) for e in project_values(rf.log)][:10]}
    if ctx.want_log:
        out.log = [[rb.log, rf.log] for _, _, _, (rb, rf) in tenants] + [sim.trace]
    return finish_outcome(out, st, sim, ctx)


def explore(st, ctx):
    return [execute(st, ctx)]
