"""
C04 - owned async iterators are released when a tool finishes, fails or is closed.

Fault enumeration over one sampled scenario:
  tools / aggregations: run to exhaustion; close@j for every j; consumer athrow@j for every j;
                        source / callable raising at every use k
  tee:                  op history over the children; at every prefix length the remaining children
                        are closed (one by one in a drawn order, or through the handle)
  groupby:              op history over groupby and its groups; closed at every prefix length
The release state of every instrumented source is read *inside the consumer task at the instant the
close / raise / exhaustion completes* (later finalisers or garbage collection do not count).
"""

from ..actors import World, make_fault, FAULT_TYPES, ident, make_async_source, SrcPlan
from ..loop import Cancel
from ..runner import Outcome
from ..tools import TOOLS, AGGS, draw_cfg, Gen, TOOL_NAMES, AGG_NAMES, lib
from ..tooldiff import Run, ref_tool, ref_agg, build_async, _objs
from .common import (
    set_interrupts,
    COMPONENTS_BASE, run_sim, new_sim, finish_outcome, bounded_steps, enumerate_faults,
)

PID = "C04"
LEVEL = "fault_enumeration"
BUDGET = {"quick": 100000, "thorough": 1500000}
RULE = (
    "each run samples a scenario and enumerates its crash points, one simulated execution each: "
    "(tools/aggregations) exhaustion, close@j for j=1..len+1 (handles: from 0), consumer athrow@j, "
    "source/callable raising at every use k; (tee) an op history over 1..4 children, cut at every prefix "
    "length and followed by closing the remaining children in a drawn order or through the handle; "
    "(groupby) an op history cut at every prefix length followed by aclose. Sources are async generators, "
    "class-based async iterators with (suspending) aclose, async iterables. Oracle: at the instant the "
    "close/raise/exhaustion completes every obligated source is closed or exhausted; aclose raises nothing; "
    "tee closes its source exactly when the last child is done. Non-trivial: >=1 async source with a release "
    "obligation and the crash point was reached; distinct = distinct (scenario shape, crash point)."
    " Extensions of rounds 9-12: callables raising StopAsyncIteration; a tee source is closed when the last child is done and not before, even if it has reported its end; nested chains / re-split tee children from the tool table."
    " Round 13: tee histories may end by leaving ``async with tee`` (also with a GeneratorExit); the tee may be given a plain lock."
    " Round 14: a fault that reaches the consumer through a group of a groupby is judged like one raised by the groupby itself (source released when the raise completes)."
)
COMPONENTS = COMPONENTS_BASE
ASSUMPTIONS = [
    "released = aclose awaited >= 1x or end-of-stream delivered (class-based) / generator frame gone (async generator)",
    "obligation starts once the library iterator has been advanced (generator-based tools) or at construction "
    "(chain, tee, groupby handles), as the property states; chain.from_iterable owns only fetched members",
    "one crash point per execution; sources' own aclose never raises",
]
PROBES = ("close_midway", "close_unstarted_handle", "athrow", "source_raises", "callable_raises",
          "tee_history", "groupby_history", "handle_source_raises", "aclose_suspends", "aggregation", "unstarted_source_closed")

NAMES = tuple(n for n in TOOL_NAMES if n != "tee") + AGG_NAMES
HANDLES = ("chain",)


class Prep:
    pass


def prepare(ch):
    prep = Prep()
    prep.cfg = draw_cfg(ch, async_only=not ch.chance(1, 4), odd_items=False)
    prep.interrupt = ch.draw(4)
    prep.cfg.aclose_susp = ch.chance(1, 2)
    sel = ch.weighted([10, 2, 2])
    g = Gen(ch, prep.cfg, "")
    prep.kind = ("op", "tee", "groupby")[sel]
    if prep.kind == "op":
        name = NAMES[ch.draw(len(NAMES))]
        prep.is_agg = name in AGGS
        prep.spec = (AGGS if prep.is_agg else TOOLS)[name].gen(g)
        if name == "batched" and prep.spec.p["n"] < 1:
            prep.spec.p["n"] = 1  # an invalid batch size is refused before the source is touched
        prep.steps = None
        if not prep.is_agg and TOOLS[name].infinite:
            prep.steps = bounded_steps(ch, prep.spec)
        base = ref_agg(prep.spec) if prep.is_agg else ref_tool(prep.spec, prep.steps)
        prep.uses = [u for u in base.world.uses if u not in base.world.repolls]
        prep.fn_names = set(base.world.fns)
        prep.n_items = base.n_steps_done
    elif prep.kind == "tee":
        n = ch.between(1, 4)
        items = g.items()
        prep.src = g.src(items)
        prep.n = n
        ops = []
        for _ in range(ch.draw(2 * (len(items) + 1) * n + 1)):
            ops.append((ch.weighted([5, 1]), ch.draw(n)))  # (0 next | 1 close, child)
        prep.ops = ops
        prep.close_order = [ch.draw(n) for _ in range(n)]
    else:
        items = g.items()
        prep.src = g.src(items)
        prep.key = g.keyfn()
        ops = []
        for _ in range(ch.draw(2 * len(items) + 3)):
            ops.append((ch.weighted([4, 6, 1]), ch.draw(3)))  # (0 advance groupby | 1 advance group -i | 2 close group -i)
        prep.ops = ops
    return prep


def fault_lists(prep, faults):
    out = []
    if prep.kind == "op":
        out.append([0])
        if not prep.is_agg:
            lo = 0 if prep.spec.tool in HANDLES else 1
            for j in range(lo, prep.n_items + 2):
                out.append([1, j])
            for j in range(1, prep.n_items + 1):
                out.append([2, j, faults.draw(len(FAULT_TYPES))])
        for k in range(len(prep.uses)):
            out.append([3, k, faults.draw(len(FAULT_TYPES)), faults.draw(6)])
    else:
        for p in range(len(prep.ops) + 1):
            out.append([p, faults.draw(4), 0, 0])
        # the source raises at its k-th pull somewhere inside the history
        nkey = len(prep.src.items) if getattr(prep, "key", None) is not None else 0
        for k in range(len(prep.src.items) + 1 + nkey):
            out.append([len(prep.ops), faults.draw(4), k + 1, faults.draw(len(FAULT_TYPES))])
    return out


def unreleased(run, spec=None):
    bad = []
    from_iterable = spec is not None and spec.tool == "chain" and spec.p.get("form")
    for src in run.srcs:
        if not src.must_release:
            continue
        if from_iterable and not src.started:
            continue
        if not src.released:
            bad.append(src.name)
    return bad


# --------------------------------------------------------------------------- tools / aggregations
async def consumer_op(prep, run, mode, pos, exc, res):
    spec = prep.spec
    world = run.world
    run.srcs, run.fns = build_async(spec, world)
    S, F = _objs(run.srcs), _objs(run.fns)
    L = lib()
    if prep.is_agg:
        try:
            res["value"] = await AGGS[spec.tool].a(L, spec, S, F)
            res["end"] = "value"
        except Cancel:
            raise
        except BaseException as err:
            res["end"] = "exc"
            res["exc"] = err
        res["reached"] = True
        res["unreleased"] = unreleased(run, spec)
        return
    it = TOOLS[spec.tool].a(L, spec, S, F)
    del S, F
    n = 0
    limit = prep.steps
    if mode in (1, 2):
        limit = pos if limit is None else min(limit, pos)
    advanced = False
    try:
        while limit is None or n < limit:
            advanced = True
            try:
                await it.__anext__()
            except StopAsyncIteration:
                res["end"] = "stop"
                break
            n += 1
            if n > 3000:
                raise RuntimeError("tool over finite inputs does not end")
        else:
            res["end"] = "partial"
    except Cancel:
        raise
    except BaseException as err:
        res["end"] = "exc"
        res["exc"] = err
    res["advanced"] = advanced
    if res["end"] in ("stop", "exc"):
        # exhaustion or raise completed: everything must be released right now
        res["reached"] = True
        res["unreleased"] = unreleased(run, spec)
        res["at"] = "exhaustion" if res["end"] == "stop" else "raise"
        return
    # partial: the crash point
    if mode == 1:
        try:
            await it.aclose()
        except Cancel:
            raise
        except BaseException as err:
            res["close_exc"] = err
        res["reached"] = True
        res["at"] = "close"
        if advanced or spec.tool in HANDLES:
            res["unreleased"] = unreleased(run, spec)
    elif mode == 2:
        athrow = getattr(it, "athrow", None)
        if athrow is None:
            try:
                await it.aclose()
            except BaseException as err:  # noqa
                res["close_exc"] = err
            res["at"] = "close"
            res["unreleased"] = unreleased(run, spec)
            return
        try:
            await athrow(exc)
            res["athrow_end"] = "yielded"
        except Cancel:
            raise
        except BaseException as err:
            res["athrow_end"] = "same" if err is exc else repr(err)
        res["reached"] = True
        res["at"] = "athrow"
        if res["athrow_end"] != "yielded":
            res["unreleased"] = unreleased(run, spec)
        else:
            try:
                await it.aclose()
            except BaseException as err:  # noqa
                res["close_exc"] = err
    else:
        # bounded consumption of an infinite tool: close it
        try:
            await it.aclose()
        except BaseException as err:  # noqa
            res["close_exc"] = err
        res["at"] = "close"
        res["reached"] = advanced
        if advanced:
            res["unreleased"] = unreleased(run, spec)


def run_op(prep, st, ctx, out, sim):
    spec = prep.spec
    tool = spec.tool
    mode = st.faults.draw(4)
    if prep.is_agg and mode in (1, 2):
        mode = 0
    pos = 0
    kind = 0
    fault = None
    exc = None
    if mode == 1:
        pos = st.faults.draw(prep.n_items + 2)
    elif mode == 2:
        pos = st.faults.draw(prep.n_items + 1)
        kind = st.faults.draw(len(FAULT_TYPES))
        exc = make_fault(kind, "athrow@%d" % pos)
        if pos == 0:
            pos = 1
    elif mode == 3:
        if not prep.uses:
            mode = 0
        else:
            k = st.faults.draw(len(prep.uses))
            kind = st.faults.draw(len(FAULT_TYPES))
            party, idx = prep.uses[k]
            fault = (party, idx, make_fault(kind, "fault@%d" % k))
            if party in getattr(prep, "fn_names", ()) and st.faults.draw(6) == 0:
                # a callable that raises StopAsyncIteration (of all exceptions): an error like any other for the sources
                fault = (party, idx, StopAsyncIteration("fault@%d" % k))
    world = World(sim, own_log=True)
    if fault:
        world.set_fault(*fault)
    run = Run(world)
    res = {"end": None, "unreleased": None, "reached": False, "close_exc": None, "at": None}
    sim.spawn(consumer_op(prep, run, mode, pos, exc, res))
    run_sim(sim)
    modename = ("exhaust", "close", "athrow", "raise")[mode]
    if sim.capped or sim.deadlock:
        if sim.deadlock:
            out.violate("C04.deadlock", (tool,), {"scenario": spec.describe()})
        return run, modename, pos, fault
    if res["end"] is None:
        out.violate("C04.did_not_finish", (tool,), {"scenario": spec.describe()})
        return run, modename, pos, fault
    if res["unreleased"]:
        out.violate("C04.source_not_released", (tool, res["at"] or modename),
                    {"unreleased": res["unreleased"], "mode": modename, "pos": pos,
                     "fault": repr(fault[:2]) if fault else None, "end": res["end"],
                     "scenario": spec.describe()})
    if res["close_exc"] is not None:
        out.violate("C04.aclose_raised", (tool, type(res["close_exc"]).__name__),
                    {"exc": repr(res["close_exc"]), "mode": modename, "pos": pos, "scenario": spec.describe()})
    oblig = any(s.must_release for s in run.srcs)
    out.nontrivial = bool(oblig and res["reached"])
    if res["reached"]:
        if mode == 1:
            out.probes["close_midway" if pos else "close_unstarted_handle"] = 1
            out.faults["close_at_position"] = 1
        elif mode == 2:
            out.probes["athrow"] = 1
            out.faults["consumer_athrow"] = 1
        elif mode == 3:
            out.probes["source_raises" if fault[0] in world.sources else "callable_raises"] = 1
            out.faults["party_raises"] = 1
        if prep.is_agg:
            out.probes["aggregation"] = 1
    if any(s.plan.aclose_suspends and s.n_aclose for s in run.srcs):
        out.probes["aclose_suspends"] = 1
    if any(s.must_release and not s.started and s.released for s in run.srcs):
        out.probes["unstarted_source_closed"] = 1
    return run, modename, pos, fault


# --------------------------------------------------------------------------- tee histories
def src_closed_early(src):
    """Closed by somebody although not exhausted"""
    if src.exhausted or src.killed:
        return False
    if src.plan.flavour == "agen":
        return src.agen is not None and src.agen.ag_frame is None
    return src.n_aclose > 0


async def consumer_tee(prep, run, cut, via_handle, res, fault=None):
    world = run.world
    if fault is not None:
        world.set_fault(*fault)
    src = make_async_source(world, prep.src)
    run.srcs = [src]
    handle = lib().tee(src.obj, prep.n)
    children = list(handle)
    done = [False] * prep.n
    problems = res["problems"]

    def check(after):
        live = [i for i in range(prep.n) if not done[i]]
        if live:
            # (also a source that has reported its end is closed when the last child is done, not before: "exactly when")
            if src_closed_early(src) or (src.plan.flavour != "agen" and getattr(src, "n_aclose", 0) > 0):
                problems.append(("tee_closed_source_early", after, live))
        elif src.must_release and not src.released:
            problems.append(("tee_source_not_released", after, live))

    try:
        for op, c in prep.ops[:cut]:
            if op == 0:
                try:
                    await children[c].__anext__()
                except StopAsyncIteration:
                    done[c] = True
                except BaseException as err:
                    if fault is None or err is not fault[2]:
                        raise
                    # the child raised what its source raised: that child is finished, its siblings are not
                    done[c] = True
                    res["source_raised"] = True
                check("next")
            else:
                await children[c].aclose()
                done[c] = True
                check("child_close")
        if via_handle == 2:
            async with handle:
                pass
            done = [True] * prep.n
            check("handle_block_left")
        elif via_handle == 3:
            # the block of ``async with tee`` is left by a GeneratorExit (the async generator it is written in is closed)
            await handle.__aexit__(GeneratorExit, GeneratorExit(), None)
            done = [True] * prep.n
            check("handle_block_left_by_generatorexit")
        elif via_handle:
            await handle.aclose()
            done = [True] * prep.n
            check("handle_close")
        else:
            for c in prep.close_order + list(range(prep.n)):
                if not done[c]:
                    await children[c].aclose()
                    done[c] = True
                    check("child_close")
    except Cancel:
        raise
    except BaseException as err:
        res["exc"] = err
    res["finished"] = True


# --------------------------------------------------------------------------- groupby histories
async def consumer_groupby(prep, run, cut, res, fault=None):
    world = run.world
    if fault is not None:
        world.set_fault(*fault)
    src = make_async_source(world, prep.src)
    run.srcs = [src]
    run.fns, fobj = [], None
    if prep.key is not None:
        from ..actors import make_async_fn

        fn = make_async_fn(world, prep.key)
        run.fns = [fn]
        fobj = fn.obj
    gb = lib().groupby(src.obj, fobj) if fobj is not None else lib().groupby(src.obj)
    groups = []
    problems = res["problems"]
    try:
        for op, i in prep.ops[:cut]:
            if op == 0 or not groups:
                try:
                    _, grp = await gb.__anext__()
                    groups.append(grp)
                except StopAsyncIteration:
                    res["exhausted"] = True
                except BaseException as err:
                    if fault is None or err is not fault[2]:
                        raise
                    # the groupby iterator itself raised: its source is released by now
                    res["source_raised"] = True
                    if src.must_release and not src.released:
                        problems.append(("groupby_source_not_released", "raise", cut))
                    break
            elif op == 2:
                # closing a group (live or stale, once or again) ends that group; it never fails
                grp = groups[-1 - (i % len(groups))]
                try:
                    await grp.aclose()
                    await grp.aclose()
                except Cancel:
                    raise
                except BaseException as err:
                    problems.append(("aclose_raised", type(err).__name__, "group: " + repr(err)))
            else:
                grp = groups[-1 - (i % len(groups))]
                try:
                    await grp.__anext__()
                except StopAsyncIteration:
                    pass
                except BaseException as err:
                    if fault is None or err is not fault[2]:
                        raise
                    res["source_raised"] = True
                    # the failure reached the consumer through a group of the groupby: the source that was passed
                    # to the groupby is released by now just as when the groupby's own step fails (round 14)
                    if src.must_release and not src.released:
                        problems.append(("groupby_source_not_released", "raise in group", cut))
        res["live_group"] = bool(groups)
        try:
            await gb.aclose()
        except Cancel:
            raise
        except BaseException as err:
            problems.append(("aclose_raised", type(err).__name__, repr(err)))
        if src.must_release and not src.released:
            problems.append(("groupby_source_not_released", "close", cut))
        # the groups that were handed out may be closed by their consumers afterwards as well
        for grp in groups:
            try:
                await grp.aclose()
            except Cancel:
                raise
            except BaseException as err:
                problems.append(("aclose_raised", type(err).__name__, "group after groupby.aclose(): " + repr(err)))
                break
    except Cancel:
        raise
    except BaseException as err:
        res["exc"] = err
    res["finished"] = True


def run_handle(prep, st, ctx, out, sim):
    cut = st.faults.draw(len(prep.ops) + 1)
    via = st.faults.draw(4)  # 0 child by child | 1 handle.aclose() | 2 leaving ``async with handle`` | 3 ... by GeneratorExit
    nsrc = len(prep.src.items) + 1
    nkey = len(prep.src.items) if getattr(prep, "key", None) is not None else 0
    fk = st.faults.draw(nsrc + nkey + 1)
    ft = st.faults.draw(len(FAULT_TYPES))
    fault = None
    if fk > nsrc:
        # the key function of groupby raises at its k-th call
        fault = (prep.key.name, fk - nsrc - 1, make_fault(ft, "keyfault@%d" % (fk - nsrc - 1)))
    elif fk:
        fault = (prep.src.name, fk - 1, make_fault(ft, "fault@%d" % (fk - 1)))
    world = World(sim, own_log=True)
    run = Run(world)
    res = {"problems": [], "finished": False, "exc": None}
    if prep.kind == "tee":
        sim.spawn(consumer_tee(prep, run, cut, via, res, fault))
    else:
        sim.spawn(consumer_groupby(prep, run, cut, res, fault))
    run_sim(sim)
    if sim.deadlock:
        out.violate("C04.deadlock", (prep.kind,), {})
    if sim.capped or sim.deadlock:
        return run, cut, (via, fk, ft)
    if not res["finished"]:
        out.violate("C04.did_not_finish", (prep.kind,), {})
    if res["exc"] is not None:
        out.violate("C04.unexpected_exception", (prep.kind, type(res["exc"]).__name__), {"exc": repr(res["exc"])})
    for prob in res["problems"]:
        if prob[0] == "aclose_raised":
            out.violate("C04.aclose_raised", (prep.kind, prob[1]),
                        {"exc": prob[2], "ops": prep.ops[:cut], "source": prep.src.describe()})
        else:
            out.violate("C04." + prob[0], (prep.kind, prob[1]),
                        {"ops": prep.ops[:cut], "via_handle": via, "detail": repr(prob),
                         "party_raises_at_use": (fk - 1) if fk else None,
                         "source": prep.src.describe(), "n": getattr(prep, "n", None)})
        break
    out.nontrivial = bool(run.srcs and run.srcs[0].must_release)
    out.probes["tee_history" if prep.kind == "tee" else "groupby_history"] = 1
    out.faults["close_at_position"] = 1
    if res.get("source_raised"):
        out.faults["party_raises"] = 1
        out.probes["handle_source_raises"] = 1
    if cut == 0:
        out.probes["close_unstarted_handle"] = 1
    return run, cut, (via, fk, ft)


def run_prepared(prep, st, ctx):
    out = Outcome()
    out.fault_free = False
    sim = new_sim(st, interrupts=False)
    set_interrupts(sim, (0, 0, 5, 2)[prep.interrupt])
    if prep.kind == "op":
        run, modename, pos, fault = run_op(prep, st, ctx, out, sim)
        out.shape = (prep.spec.shape_key(), modename, pos, fault[:2] if fault else None)
        if ctx.want_sample:
            out.sample = {"config": prep.cfg.describe(), "spec": prep.spec.describe(), "crash_point": modename,
                          "position": pos, "fault": [fault[0], fault[1], repr(fault[2])] if fault else None,
                          "sources_after": {s.name: {"released": s.released, "aclose": s.n_aclose,
                                                     "exhausted": s.exhausted} for s in run.srcs}}
    else:
        run, cut, (via, fk, ft) = run_handle(prep, st, ctx, out, sim)
        out.shape = (prep.kind, prep.src.flavour, tuple(i.key for i in prep.src.items), tuple(prep.ops[:cut]),
                     via, fk, ft, getattr(prep, "n", 0))
        if ctx.want_sample:
            out.sample = {"config": prep.cfg.describe(), "handle": prep.kind, "source": prep.src.describe(),
                          "ops": [list(o) for o in prep.ops[:cut]], "then": "handle.aclose" if via else "close children",
                          "party_raises_at_use": (fk - 1) if fk else None, "fault_type": FAULT_TYPES[ft].__name__ if fk else None,
                          "children": getattr(prep, "n", None)}
    if ctx.want_log:
        out.log = [run.log, sim.trace]
    return finish_outcome(out, st, sim, ctx)


def execute(st, ctx):
    prep = prepare(st.scenario)
    out = run_prepared(prep, st, ctx)
    out.lists = st.recorded()
    return out


def explore(st, ctx):
    return enumerate_faults(st, ctx, prepare, run_prepared, fault_lists)
