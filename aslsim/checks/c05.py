"""
C05 - laziness and evaluation order.

The consumer advances the tool j steps (j from 0 to one past exhaustion); the complete event log
- pulls per source, end-of-source detections, callable invocations with argument identities,
yields - must equal that of the stdlib twin driven j steps.  Also ``all``/``any``.
"""

from ..actors import World
from ..runner import Outcome
from ..tools import TOOLS, AGGS, draw_cfg, Gen, TOOL_NAMES
from ..tooldiff import (
    Run, drive_tool, ref_tool, drive_agg, ref_agg, normalise, first_diff,
)
from .common import COMPONENTS_BASE, run_sim, new_sim, finish_outcome, bounded_steps

PID = "C05"
LEVEL = "exploration"
BUDGET = {"quick": 300000, "thorough": 6000000}
RULE = (
    "each run draws a swarm configuration and 1..3 co-tenant scenarios (tool of C01 or all/any, valid "
    "parameters, sources of logging flavours: one-shot sync iterator, __getitem__ sequence, async generator, "
    "class-based async iterators), a consumer step count j in 0..exhaustion+1, suspension pattern; oracle: "
    "normalised event log (pull/eos/call+args/yield/end, in order) == log of the stdlib twin driven j steps. "
    "Non-trivial: (>=2 sources or >=1 callable) and at least one event; distinct = distinct "
    "(tool, flavours, key sequences, callables, parameters, j) tuples by 64-bit hash."
    " Extensions of rounds 9-12: containers that really start over when iterated again; nested chains, re-split tee children; regular generator sources read on by their owner."
)
COMPONENTS = COMPONENTS_BASE
ASSUMPTIONS = [
    "reference = CPython 3.12.1 stdlib driven the same number of steps over sync twins of the same objects",
    "normalisation (DESIGN 5): lifecycle events dropped; re-polling an already exhausted source is not an event; "
    "acquiring an iterator is not an event",
    "batched(strict) compared with a model of the 3.13 semantics",
]
PROBES = ("stopped_before_exhaustion", "multi_source", "with_callable", "short_circuit")

NAMES = TOOL_NAMES + ("all", "any")


def sig_kind(ea, eb):
    for e in (ea, eb):
        if e is not None:
            return e[0]
    return "length"


def execute(st, ctx):
    out = Outcome()
    ch = st.scenario
    cfg = draw_cfg(ch, logging_only=True, huge=True)
    sim = new_sim(st)
    ntenants = 1 + ch.weighted([6, 3, 1])
    tenants = []
    for t in range(ntenants):
        g = Gen(ch, cfg, "abc"[t] if ntenants > 1 else "")
        name = NAMES[ch.draw(len(NAMES))]
        if name in AGGS:
            spec = AGGS[name].gen(g)
            steps = None
            run = Run(World(sim, own_log=True))
            sim.spawn(drive_agg(spec, run))
        else:
            spec = TOOLS[name].gen(g)
            if TOOLS[name].infinite:
                steps = bounded_steps(ch, spec)
            else:
                full = ref_tool(spec, None)
                steps = ch.draw(full.n_steps_done + 2)
                if steps < full.n_steps_done:
                    out.probes["stopped_before_exhaustion"] = 1
            run = Run(World(sim, own_log=True))
            sim.spawn(drive_tool(spec, run, steps, close=True, keep_items=False))
        tenants.append((spec, steps, run))
    run_sim(sim)
    nontrivial = False
    for spec, steps, run in tenants:
        if sim.capped or sim.deadlock:
            break
        if run.end is None:
            out.violate("C05.consumer_did_not_finish", (spec.tool,), {"scenario": spec.describe()})
            continue
        ref = ref_agg(spec) if spec.tool in AGGS else ref_tool(spec, steps)
        a = normalise(run.log)
        b = normalise(ref.log)
        pos = first_diff(a, b)
        if pos is not None:
            ea = a[pos] if pos < len(a) else None
            eb = b[pos] if pos < len(b) else None
            out.violate("C05.event_order_differs", (spec.tool, sig_kind(ea, eb)),
                        {"position": pos, "async": repr(ea), "stdlib": repr(eb), "steps": steps,
                         "async_log": [repr(e) for e in a][:40], "stdlib_log": [repr(e) for e in b][:40],
                         "scenario": spec.describe()})
        if (len(spec.srcs) >= 2 or any(f is not None for f in spec.fns)) and a:
            nontrivial = True
        if len(spec.srcs) >= 2:
            out.probes["multi_source"] = 1
        if any(f is not None for f in spec.fns):
            out.probes["with_callable"] = 1
        if spec.tool in AGGS and run.srcs and not run.srcs[0].exhausted:
            out.probes["short_circuit"] = 1
    if sim.deadlock:
        out.violate("C05.deadlock", (tenants[0][0].tool,), {})
    out.nontrivial = nontrivial
    out.shape = tuple([(spec.shape_key(), steps) for spec, steps, _ in tenants])
    if ctx.want_sample:
        out.sample = {"config": cfg.describe(), "tenants": [
            {"spec": spec.describe(), "steps": steps, "async_log": [repr(e) for e in normalise(run.log)][:30]}
            for spec, steps, run in tenants]}
    if ctx.want_log:
        out.log = [run.log for _, _, run in tenants] + [sim.trace]
    return finish_outcome(out, st, sim, ctx)


def explore(st, ctx):
    return [execute(st, ctx)]
