"""
C06 - errors from sources/callables surface unchanged, where the stdlib would raise.

For each sampled scenario the reference run is executed fault-free to learn the merged use
sequence (pulls, end-of-source checks, callable invocations); then *every* position k gets one
execution in which that use raises a pre-built exception object - in the stdlib twin and in
the simulated async run.
"""

from ..actors import World, make_fault, FAULT_TYPES
from ..runner import Outcome
from ..tools import TOOLS, AGGS, draw_cfg, Gen, TOOL_NAMES, AGG_NAMES
from ..tooldiff import (
    Run, drive_tool, ref_tool, drive_agg, ref_agg, project_values, first_diff,
)
from .common import (
    set_interrupts,
    COMPONENTS_BASE, run_sim, new_sim, finish_outcome, bounded_steps, enumerate_faults,
)

PID = "C06"
LEVEL = "fault_enumeration"
BUDGET = {"quick": 150000, "thorough": 2500000}
RULE = (
    "each run samples a scenario (tool of C01 or aggregation of C02, logging source flavours, callables of "
    "5 flavours) and enumerates every single-fault position k = 1..N over the reference run's merged use "
    "sequence (source pull, end-of-source check, callable invocation), fault object one of InjectedFault / "
    "TypeError / ValueError / LookupError / RuntimeError / a BaseException subclass; one simulated execution "
    "per position. Oracle: same delivered prefix as the stdlib twin with the same fault, the raised object "
    "`is` the injected one, failed party not used again, no ordinary return. evaluations = executions "
    "(positions); non-trivial = the fault fired; distinct = distinct (scenario shape, party, position)."
    " Extensions of rounds 9-12: None as first / last / any item for pass-along tools."
)
COMPONENTS = COMPONENTS_BASE
ASSUMPTIONS = [
    "reference = CPython 3.12.1 stdlib with the same exception object raised at the same use",
    "StopIteration/StopAsyncIteration are never injected (indistinguishable from exhaustion by design)",
    "one fault per execution",
]
PROBES = ("fault_in_source", "fault_in_callable", "fault_at_eos_check", "fault_in_async_party",
          "fault_in_sync_party", "fault_after_items_delivered", "second_fault_reached_first")
NAMES = TOOL_NAMES + AGG_NAMES


NONE_SAFE = ("pairwise", "enumerate", "batched", "zip", "zip_longest", "chain", "cycle", "islice", "tee")


class Prep:
    pass


def prepare(ch):
    prep = Prep()
    # items that make the stdlib raise by themselves would be a second fault: excluded here
    prep.cfg = draw_cfg(ch, logging_only=True, odd_items=False)
    prep.interrupt = ch.draw(4)
    g = Gen(ch, prep.cfg, "")
    name = NAMES[ch.draw(len(NAMES))]
    prep.is_agg = name in AGGS
    prep.spec = (AGGS if prep.is_agg else TOOLS)[name].gen(g)
    if name in NONE_SAFE and prep.spec.srcs and ch.chance(1, 5):
        # None as an item (first, last or anywhere): data like any other for tools that only pass items along -
        # and the one value a tool may be tempted to use as its own "nothing there" marker
        src = prep.spec.srcs[ch.draw(len(prep.spec.srcs))]
        if src.items:
            src.items[(0, len(src.items) - 1, ch.draw(len(src.items)))[ch.draw(3)]] = None
    if name == "tee":
        prep.spec.p["carry_on"] = False  # here the failure has to reach the consumer of the driver
    prep.steps = None
    if not prep.is_agg and TOOLS[name].infinite:
        prep.steps = bounded_steps(ch, prep.spec)
    base = ref_agg(prep.spec) if prep.is_agg else ref_tool(prep.spec, prep.steps)
    # re-polling a source that already reported its end is not a use (DESIGN 5, rule 2)
    prep.uses = [u for u in base.world.uses if u not in base.world.repolls]
    return prep


def fault_lists(prep, faults):
    out = []
    n = len(prep.uses)
    for k in range(n):
        out.append([k, faults.draw(len(FAULT_TYPES)), 0, 0])
    # two parties prepared to fail in one run (of different exception types): whichever the stdlib reaches first
    # must be the one the consumer of the async twin gets as well
    for _ in range(0 if prep.is_agg else min(3, n * (n - 1) // 2)):
        k = faults.draw(n)
        out.append([k, faults.draw(len(FAULT_TYPES)), 1 + faults.draw(n), faults.draw(len(FAULT_TYPES))])
    if not out:
        out.append([0, 0, 0, 0])
    return out


def run_prepared(prep, st, ctx):
    out = Outcome()
    spec = prep.spec
    tool = spec.tool
    uses = prep.uses
    sim = new_sim(st, interrupts=False)
    set_interrupts(sim, (0, 0, 5, 2)[prep.interrupt])
    fault = fault2 = None
    if uses:
        k = st.faults.draw(len(uses))
        kind = st.faults.draw(len(FAULT_TYPES))
        party, idx = uses[k]
        exc = make_fault(kind, "fault@%d" % k)
        fault = (party, idx, exc)
        out.fault_free = False
        k2 = st.faults.draw(len(uses) + 1)
        kind2 = st.faults.draw(len(FAULT_TYPES))
        # only for iterators: their order of uses equals the stdlib's (C05); aggregations may legitimately order
        # pulls and key calls differently (sorted collects first), so "which fault comes first" is not defined there
        if k2 and k2 - 1 != k and not prep.is_agg:
            if FAULT_TYPES[kind2 % len(FAULT_TYPES)] is FAULT_TYPES[kind % len(FAULT_TYPES)]:
                kind2 += 1
            party2, idx2 = uses[k2 - 1]
            fault2 = (party2, idx2, make_fault(kind2, "second-fault@%d" % (k2 - 1)))
    world = World(sim, own_log=True)
    world.fault2 = fault2
    if fault:
        world.set_fault(*fault)
    run = Run(world)
    if prep.is_agg:
        sim.spawn(drive_agg(spec, run))
    else:
        sim.spawn(drive_tool(spec, run, prep.steps, close=True))
    run_sim(sim)
    if not (sim.capped or sim.deadlock):
        ref = ref_agg(spec, fault, fault2) if prep.is_agg else ref_tool(spec, prep.steps, fault, fault2)
        if fault2 is not None and ref.exc is fault2[2]:
            fault, fault2 = fault2, fault  # the one the stdlib ran into is "the" fault below
            out.probes["second_fault_reached_first"] = 1
        if fault2 is not None:
            out.faults["two_parties_prepared_to_fail"] = 1
        pkind = "source" if fault and fault[0] in world.sources else "callable"
        if run.end is None:
            out.violate("C06.did_not_finish", (tool,), {"scenario": spec.describe()})
        elif fault and ref.exc is fault[2]:
            # the stdlib raised the injected object: the async twin must do exactly the same
            a, b = project_values(run.log), project_values(ref.log)
            pos = first_diff(a[:-1], b[:-1]) if (a and b) else 0
            if run.end != "exc":
                out.violate("C06.error_swallowed", (tool, pkind),
                            {"fault": repr(fault[:2]), "async": [repr(e) for e in a][-4:],
                             "stdlib": [repr(e) for e in b][-4:], "scenario": spec.describe()})
            elif run.exc is not fault[2]:
                out.violate("C06.error_replaced", (tool, pkind, type(run.exc).__name__),
                            {"fault": repr(fault[:2]), "raised": repr(run.exc), "injected": repr(fault[2]),
                             "scenario": spec.describe()})
            elif pos is not None or len(a) != len(b):
                out.violate("C06.delivered_prefix_differs", (tool, pkind),
                            {"fault": repr(fault[:2]), "async": [repr(e) for e in a][:12],
                             "stdlib": [repr(e) for e in b][:12], "scenario": spec.describe()})
            if world.use_after_fault:
                out.violate("C06.used_after_failure", (tool, pkind),
                            {"party": world.use_after_fault, "scenario": spec.describe()})
            else:
                # once the failure is on its way to the consumer nobody is advanced, called or thrown into any more
                # (closing is not a use): the stdlib counterpart touches nothing after the failure either
                at = next((i for i, e in enumerate(run.log)
                           if e[0] in ("raise", "craise") and e[1] == fault[0] and e[2] == fault[1]), None)
                if at is not None:
                    later = [e for e in run.log[at + 1:] if e[0] in ("pull", "call", "thrown_into", "asend", "athrow")]
                    if later:
                        out.violate("C06.other_party_used_after_failure", (tool, pkind, later[0][0]),
                                    {"fault": repr(fault[:2]), "later_uses": [repr(e) for e in later][:6],
                                     "scenario": spec.describe()})
            out.nontrivial = True
            out.faults["raise_in_" + pkind] = 1
            out.probes["fault_in_" + pkind] = 1
            src = world.sources.get(fault[0])
            if src is not None:
                if fault[1] >= len(src.items):
                    out.probes["fault_at_eos_check"] = 1
                flav = src.plan.flavour
                out.probes["fault_in_async_party" if flav not in ("sync_iter", "getitem", "seq_abc", "set_abc") else "fault_in_sync_party"] = 1
            else:
                flav = world.fns[fault[0]].plan.flavour
                out.probes["fault_in_async_party" if flav != "def" else "fault_in_sync_party"] = 1
            if ref.yields:
                out.probes["fault_after_items_delivered"] = 1
        else:
            # fault-free (or the stdlib never reached / itself absorbed the faulted use): plain differential
            a, b = project_values(run.log), project_values(ref.log)
            if first_diff(a, b) is not None:
                out.violate("C06.differs_without_fault_reaching_consumer", (tool,),
                            {"async": [repr(e) for e in a][:12], "stdlib": [repr(e) for e in b][:12],
                             "fault": repr(fault[:2]) if fault else None, "scenario": spec.describe()})
    if sim.deadlock:
        out.violate("C06.deadlock", (tool,), {})
    out.shape = (spec.shape_key(), fault[:2] if fault else None, fault2[:2] if fault2 else None)
    if ctx.want_sample:
        out.sample = {"config": prep.cfg.describe(), "spec": spec.describe(), "steps": prep.steps,
                      "use_sequence": [list(u) for u in uses],
                      "fault": [fault[0], fault[1], repr(fault[2])] if fault else None,
                      "second_fault": [fault2[0], fault2[1], repr(fault2[2])] if fault2 else None,
                      "async_result": [repr(e) for e in project_values(run.log)][:12]}
    if ctx.want_log:
        out.log = [run.log, sim.trace]
    return finish_outcome(out, st, sim, ctx)


def execute(st, ctx):
    prep = prepare(st.scenario)
    out = run_prepared(prep, st, ctx)
    out.lists = st.recorded()
    return out


def explore(st, ctx):
    return enumerate_faults(st, ctx, prepare, run_prepared, fault_lists)
