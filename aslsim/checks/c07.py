"""
C07 - a borrowed iterator can never close its underlying iterator.

One simulated task applies an operation history to a borrowed handle and to the underlying
iterator it was borrowed from; a reference model (cursor into the items + handle open/closed)
predicts every result, and after every operation the instrumented underlying iterator must be
un-closed and must have delivered exactly items[0:cursor], each once, in order.
"""

import gc

from ..actors import World, make_async_source, make_async_fn, FnPlan, ident
from ..loop import PAUSE
from ..runner import Outcome
from ..tools import draw_cfg, Gen, lib
from .common import set_interrupts, COMPONENTS_BASE, run_sim, new_sim, finish_outcome

PID = "C07"
LEVEL = "exploration"
BUDGET = {"quick": 30000, "thorough": 400000}
RULE = (
    "each run draws an underlying async iterator (async generator / class-based with aclose / without aclose / "
    "with asend+athrow) of 0..8 items with suspensions and a history of <=12 ops over {next borrowed, next "
    "underlying, aclose borrowed, aclose via iter(borrowed), asend, hand borrowed to tool T (14 tools) take j then "
    "close / exhaust / abandon T, re-borrow, drop handle + gc}; oracle: model (cursor, handle open/closed) predicts "
    "each result; after every op underlying aclose count == 0 (async generator: still alive unless exhausted) and "
    "its delivery log == items[0:cursor]; a closed handle yields nothing and does not advance the cursor. "
    "Non-trivial: the handle was closed at least once (directly, via iter, by a tool or by gc) and the underlying "
    "iterator was used afterwards; distinct = distinct (flavour, length, history) by 64-bit hash."
)
COMPONENTS = dict(COMPONENTS_BASE, models=["borrowed-handle model: cursor + handle state (open/closed)"])
ASSUMPTIONS = [
    "tools used on the handle consume one source item per item they yield (map, filter(None), enumerate, zip, chain, "
    "islice(None), batched(1), takewhile(true), dropwhile(false), tee(1), merge, zip_longest, cycle, filterfalse)",
    "gc is run at fixed points; finalisers of abandoned generators run as simulator tasks before the next op",
]
PROBES = ("closed_directly", "closed_via_iter", "closed_by_tool", "closed_by_gc", "asend_used",
          "underlying_used_after_close", "tool_abandoned", "reborrowed")

TOOLS_1TO1 = ("map", "filter", "enumerate", "zip", "chain", "islice", "batched", "takewhile", "dropwhile",
              "tee", "merge", "zip_longest", "cycle", "filterfalse")
CLOSES_UNSTARTED = ("chain", "tee")


def build_tool(L, name, b, fn_true, fn_false, fn_comb):
    if name == "map":
        return L.map(fn_comb, b)
    if name == "filter":
        return L.filter(None, b)
    if name == "filterfalse":
        return L.filterfalse(fn_false, b)
    if name == "enumerate":
        return L.enumerate(b)
    if name == "zip":
        return L.zip(b)
    if name == "chain":
        return L.chain(b)
    if name == "islice":
        return L.islice(b, None)
    if name == "batched":
        return L.batched(b, 1)
    if name == "takewhile":
        return L.takewhile(fn_true, b)
    if name == "dropwhile":
        return L.dropwhile(fn_false, b)
    if name == "tee":
        return L.tee(b, 1)
    if name == "merge":
        return L.merge(b)
    if name == "zip_longest":
        return L.zip_longest(b)
    if name == "accumulate":
        return L.accumulate(b, fn_comb)
    if name == "cycle":
        return L.cycle(b)
    raise ValueError(name)


def gen(ch):
    sc = type("Scn", (), {})()
    cfg = draw_cfg(ch, async_only=True, odd_items=False)
    cfg.max_len = 8
    sc.cfg = cfg
    g = Gen(ch, cfg, "")
    items = g.items(ch.draw(9))
    sc.src = g.src(items, ("agen", "aiter_cls", "aiter_noclose", "aiter_full"))
    sc.src.aclose_suspends = 0
    ops = []
    for _ in range(ch.between(1, 12)):
        kind = ch.weighted([5, 3, 2, 1, 1, 4, 1, 1])
        # 0 next_b 1 next_u 2 close_b 3 close_iter_b 4 asend 5 tool 6 reborrow 7 drop+gc
        if kind == 5:
            ops.append((5, TOOLS_1TO1[ch.draw(len(TOOLS_1TO1))], ch.draw(4), ch.draw(3)))  # tool, j, then
        else:
            ops.append((kind,))
    sc.ops = ops
    sc.interrupt = ch.draw(4)
    return sc


def execute(st, ctx):
    out = Outcome()
    sc = gen(st.scenario)
    sim = new_sim(st, interrupts=False)
    set_interrupts(sim, (0, 0, 5, 2)[sc.interrupt])
    world = World(sim)
    L = lib()
    src = make_async_source(world, sc.src)
    underlying = src.obj
    items = sc.src.items
    n = len(items)
    has_asend = sc.src.flavour in ("agen", "aiter_full")
    trace = []
    problems = []
    model = {"cursor": 0, "open": True, "dead": False}
    fn_true = make_async_fn(world, FnPlan("ftrue", "lt", 10 ** 6, "def")).obj
    fn_false = make_async_fn(world, FnPlan("ffalse", "lt", -10 ** 6, "async")).obj
    fn_comb = make_async_fn(world, FnPlan("fcomb", "ident", 0, "def")).obj
    fn_comb2 = make_async_fn(world, FnPlan("fcomb2", "combine", 0, "def")).obj

    async def settle():
        # let finalisers of abandoned generators run before the next op
        gc.collect()
        for _ in range(50):
            if all(t.done for t in sim.tasks if t.is_finalizer):
                break
            await sim.suspend(PAUSE, None, "history")

    def check(i, opname):
        delivered = [e[2] for e in sim.log if e[0] == "item" and e[1] == src.name]
        if delivered != list(range(model["cursor"])):
            problems.append(("C07.underlying_delivery_differs", (opname,), i,
                             {"delivered": delivered, "model_cursor": model["cursor"]}))
        closed = src.n_aclose > 0 or (sc.src.flavour == "agen" and src.finalised and not src.exhausted)
        if closed:
            problems.append(("C07.underlying_closed", (opname,), i, {"aclose": src.n_aclose, "finalised": src.finalised}))

    def expect_next(through_handle):
        if through_handle and not model["open"]:
            return ("stop",)
        c = model["cursor"]
        if c < n:
            model["cursor"] = c + 1
            return ("item", ident(items[c]))
        if through_handle:
            model["open"] = False  # the wrapper ran off the end: nothing more comes out of it
        return ("stop",)

    async def do_next(it):
        try:
            item = await it.__anext__()
        except StopAsyncIteration:
            return ("stop",)
        return ("item", ident(item))

    async def history():
        b = L.borrow(underlying)
        for i, op in enumerate(sc.ops):
            kind = op[0]
            name = ("next_b", "next_u", "close_b", "close_iter_b", "asend", "tool", "reborrow", "drop_gc")[kind]
            if kind == 0:
                got = await do_next(b)
                exp = expect_next(True)
            elif kind == 1:
                got = await do_next(underlying)
                exp = expect_next(False)
            elif kind == 2:
                await b.aclose()
                model["open"] = False
                got = exp = ("closed",)
                out.probes["closed_directly"] = 1
            elif kind == 3:
                await b.__aiter__().aclose()
                model["open"] = False
                got = exp = ("closed",)
                out.probes["closed_via_iter"] = 1
            elif kind == 4:
                if not has_asend:
                    got = ("no_asend",) if not hasattr(b, "asend") else ("has_asend",)
                    exp = ("no_asend",)
                else:
                    out.probes["asend_used"] = 1
                    try:
                        item = await b.asend(None)
                        got = ("item", ident(item))
                    except StopAsyncIteration:
                        got = ("stop",)
                    exp = expect_next(True)
            elif kind == 5:
                _, tname, j, then = op
                name = "tool:" + tname
                tool = build_tool(L, tname, b, fn_true, fn_false, fn_comb2 if tname == "accumulate" else fn_comb)
                it = tool[0] if tname == "tee" else tool
                took = 0
                ended = False
                for _ in range(j):
                    try:
                        await it.__anext__()
                    except StopAsyncIteration:
                        ended = True
                        break
                    took += 1
                started = j > 0
                # model: the tool pulled `took` items (+ the failed pull at the end)
                exp_took = 0
                for _ in range(j):
                    r = expect_next(True)
                    if r[0] == "stop":
                        break
                    exp_took += 1
                exp_ended = exp_took < j
                if tname == "cycle" and exp_ended and exp_took > 0:
                    # cycle replays its buffer instead of ending: it yields j items anyway
                    exp_took, exp_ended = j, False
                if then == 0:  # close the tool
                    await (tool.aclose() if tname == "tee" else it.aclose())
                    if started or tname in CLOSES_UNSTARTED:
                        model["open"] = False
                        out.probes["closed_by_tool"] = 1
                elif then == 1:  # exhaust the tool
                    if tname == "cycle":
                        # never ends unless empty: close it instead
                        await it.aclose()
                        if started:
                            model["open"] = False
                    else:
                        while True:
                            try:
                                await it.__anext__()
                            except StopAsyncIteration:
                                break
                        while expect_next(True)[0] != "stop":
                            pass
                        model["open"] = False
                        out.probes["closed_by_tool"] = 1
                else:  # abandon the tool
                    out.probes["tool_abandoned"] = 1
                    del it, tool
                    await settle()
                    if started:
                        model["open"] = False
                        out.probes["closed_by_gc"] = 1
                it = tool = None
                got = ("tool", took, ended)
                exp = ("tool", exp_took, exp_ended)
            elif kind == 6:
                b = L.borrow(underlying)
                model["open"] = True
                got = exp = ("borrowed",)
                out.probes["reborrowed"] = 1
                await settle()
            else:
                del b
                await settle()
                b = L.borrow(underlying)
                model["open"] = True
                got = exp = ("dropped",)
            trace.append((name, got, exp))
            if got != exp:
                problems.append(("C07.result_differs_from_model", (name.split(":")[0],), i, {"got": got, "expected": exp}))
                return
            check(i, name.split(":")[0])
            if problems:
                return
            if not model["open"] and kind in (1,):
                out.probes["underlying_used_after_close"] = 1

    sim.spawn(history())
    run_sim(sim)

    def describe():
        return {"underlying": sc.src.describe(), "ops": [list(o) for o in sc.ops],
                "trace": [repr(t) for t in trace], "model": dict(model)}

    if sim.deadlock:
        out.violate("C07.deadlock", (), describe())
    elif not sim.capped:
        for clause, sig, i, detail in problems[:1]:
            out.violate(clause, sig, dict(describe(), op_index=i, detail=detail))
        if not problems and len(trace) != len(sc.ops):
            hist = sim.tasks[0]
            out.violate("C07.history_did_not_finish", (type(hist.error).__name__,), dict(describe(), error=repr(hist.error)))
    closed_once = any(out.probes.get(k) for k in ("closed_directly", "closed_via_iter", "closed_by_tool", "closed_by_gc"))
    out.nontrivial = bool(closed_once and out.probes.get("underlying_used_after_close"))
    out.shape = (sc.src.flavour, len(items), tuple(sc.ops))
    if out.probes.get("closed_directly") or out.probes.get("closed_via_iter"):
        out.faults["handle_closed"] = 1
    if out.probes.get("tool_abandoned"):
        out.faults["tool_abandoned"] = 1
    if ctx.want_sample:
        out.sample = describe()
    if ctx.want_log:
        out.log = [sim.log, trace, sim.trace]
    return finish_outcome(out, st, sim, ctx)


def explore(st, ctx):
    return [execute(st, ctx)]
