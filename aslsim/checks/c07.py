"""
C07 - a borrowed iterator can never close its underlying iterator.

One simulated task applies an operation history to a borrowed handle and to the underlying
iterator it was borrowed from; a reference model (cursor into the items + handle open/closed)
predicts every result, and after every operation the instrumented underlying iterator must be
un-closed and must have delivered exactly items[0:cursor], each once, in order.
"""

import gc

from ..actors import World, make_async_source, make_async_fn, make_ref_fn, make_ref_source, FnPlan, ident
from ..tools import TOOLS, AGGS
from ..loop import PAUSE, SLEEP
from ..runner import Outcome
from ..tools import draw_cfg, Gen, lib
from .common import set_interrupts, COMPONENTS_BASE, run_sim, new_sim, finish_outcome

PID = "C07"
LEVEL = "exploration"
BUDGET = {"quick": 30000, "thorough": 400000}
RULE = (
    "each run draws an underlying async iterator (async generator / class-based with aclose / without aclose / "
    "with asend+athrow) of 0..8 items with suspensions and a history of <=12 ops over {next borrowed, next "
    "underlying, aclose borrowed, aclose via iter(borrowed), asend, hand borrowed to tool T (14 tools) take j then "
    "close / exhaust / abandon T, re-borrow, drop handle + gc, a ladder of 2..4 handles each borrowed from the one "
    "below with any rung advanced / closed in any order}; oracle: model (cursor, handle open/closed) predicts "
    "each result; after every op underlying aclose count == 0 (async generator: still alive unless exhausted) and "
    "its delivery log == items[0:cursor]; a closed handle yields nothing and does not advance the cursor. "
    "Non-trivial: the handle was closed at least once (directly, via iter, by a tool or by gc) and the underlying "
    "iterator was used afterwards; distinct = distinct (flavour, length, history) by 64-bit hash."
    " Extensions of rounds 9-12: send / throw through ladder rungs that were closed themselves; a kept tee whose children all ended has closed the handle."
)
COMPONENTS = dict(COMPONENTS_BASE, models=["borrowed-handle model: cursor + handle state (open/closed)"])
ASSUMPTIONS = [
    "tools used on the handle consume one source item per item they yield (map, filter(None), enumerate, zip, chain, "
    "islice(None), batched(1), takewhile(true), dropwhile(false), tee(1), merge, zip_longest, cycle, filterfalse)",
    "gc is run at fixed points; finalisers of abandoned generators run as simulator tasks before the next op",
]
PROBES = ("transient_error", "closed_directly", "closed_via_iter", "closed_by_tool", "closed_by_gc", "asend_used", "athrow_on_closed_handle",
          "underlying_used_after_close", "tool_abandoned", "reborrowed", "handle_ladder", "ladder_send_or_throw_through_closed_rung", "close_during_pull", "tool_kept")

TOOL_NAMES = ("zip", "map", "filter", "filterfalse", "enumerate", "accumulate", "batched", "chain", "compress",
              "cycle", "dropwhile", "takewhile", "islice", "pairwise", "zip_longest", "tee", "groupby")
AGG_NAMES = ("all", "any", "sum", "min", "max", "list", "tuple", "set", "sorted", "reduce", "nlargest", "nsmallest")
CLOSES_UNSTARTED = ("chain",)
KEPT_TOOLS = ("zip", "map", "filter", "filterfalse", "enumerate", "accumulate", "batched", "compress", "dropwhile",
              "takewhile", "islice", "pairwise", "zip_longest", "tee")


class ModelIter:
    """What the handle is to a synchronous stdlib tool: the model's view of the underlying iterator"""

    def __init__(self, model, items):
        self.model = model
        self.items = items

    def __iter__(self):
        self.model["touched"] = True
        return self

    def __next__(self):
        model = self.model
        if not model["open"]:
            model["signalled_stop"] = True
            raise StopIteration
        c = model["cursor"]
        if c < len(self.items):
            model["cursor"] = c + 1
            return self.items[c]
        model["open"] = False
        model["exhausted"] = True  # ran off the end: a tool need not close what is exhausted
        model["signalled_stop"] = True
        raise StopIteration


def _no_child_closes(spec):
    # a tee whose children have all been closed closes its source - here the handle; the stdlib twin has no such
    # notion, so in this check tee children are only advanced (closing children is C04 / C09 / C01 business)
    if spec.tool == "tee":
        spec.p["order"] = tuple(c if c >= 0 else -1 - c for c in spec.p["order"])


def gen(ch):
    sc = type("Scn", (), {})()
    cfg = draw_cfg(ch, async_only=True, odd_items=False)
    cfg.max_len = 8
    sc.cfg = cfg
    g = Gen(ch, cfg, "")
    items = g.items(ch.draw(9))
    if items and ch.chance(1, 4):
        for _ in range(ch.between(1, 2)):
            items[ch.draw(len(items))] = None  # None is an item like any other
    sc.src = g.src(items, ("agen", "aiter_cls", "aiter_noclose", "aiter_full", "aiter_throwonly", "aiter_sendonly"))
    sc.src.aclose_mode = 0
    sc.src.aclose_suspends = 0
    sc.src.lazy_open = False  # the history advances the underlying iterator directly, without an async-for
    ops = []
    for n in range(ch.between(1, 12)):
        kind = ch.weighted([5, 3, 2, 1, 2, 4, 1, 1, 1, 2, 1, 1, 1, 2, 2, 2, 4])
        # 0 next_b 1 next_u 2 close_b 3 close_iter_b 4 asend 5 tool 6 reborrow 7 drop+gc 8 athrow 9 aggregation
        # 10 borrow the handle itself 11 next_b hitting a transient error of the underlying 12 same via next_u
        # 13 a ladder of 2..4 handles, each borrowed from the one below: advance / close any rung in any order
        # 14 another task is in the middle of a pull through the handle while this one closes the handle
        # 15 hand the handle to a tool, take j >= 1 items and KEEP the tool; 16 advance the most recent kept tool once
        if kind == 15:
            gt = Gen(ch, cfg, "k%d" % n)
            gt.uid = 1000 * (n + 1)
            name = KEPT_TOOLS[ch.draw(len(KEPT_TOOLS))]
            spec = TOOLS[name].gen(gt)
            if not spec.srcs:
                spec.srcs = [gt.src([])]
            if name == "batched" and spec.p["n"] < 1:
                spec.p["n"] = 1
            if spec.p.get("alias"):
                spec.p["alias"] = None
            _no_child_closes(spec)
            ops.append((15, spec, ch.between(1, 3), ch.draw(len(spec.srcs))))
            continue
        if kind == 13:
            depth = ch.between(2, 4)
            # per step: 0 advance rung k | 1 close rung k | 2 / 3 send / throw through rung k (acted on once k itself was closed)
            ops.append((13, depth, tuple((ch.weighted([6, 4, 1, 1]), ch.draw(depth)) for _ in range(ch.between(1, 7)))))
            continue
        if kind in (5, 9):
            gt = Gen(ch, cfg, "t%d" % n)
            gt.uid = 1000 * (n + 1)
            if kind == 5:
                name = TOOL_NAMES[ch.draw(len(TOOL_NAMES))]
                spec = TOOLS[name].gen(gt)
                if not spec.srcs:
                    spec.srcs = [gt.src([])]
                if name == "batched" and spec.p["n"] < 1:
                    spec.p["n"] = 1
                if name == "chain" and spec.p["form"] == 2:
                    spec.p["form"] = 1  # the lazy outer source is built per world by the shared builder, not here
                    spec.srcs.pop()
                if spec.p.get("alias"):
                    spec.p["alias"] = None
                _no_child_closes(spec)
                ops.append((5, spec, ch.draw(5), ch.draw(3), ch.draw(len(spec.srcs))))  # tool spec, j, then, handle position
            else:
                name = AGG_NAMES[ch.draw(len(AGG_NAMES))]
                ops.append((9, AGGS[name].gen(gt)))
        else:
            ops.append((kind,))
    sc.ops = ops
    sc.interrupt = ch.draw(4)
    return sc


def execute(st, ctx):
    out = Outcome()
    sc = gen(st.scenario)
    sim = new_sim(st, interrupts=False)
    set_interrupts(sim, (0, 0, 5, 2)[sc.interrupt])
    world = World(sim)
    L = lib()
    src = make_async_source(world, sc.src)
    underlying = src.obj
    items = sc.src.items
    n = len(items)
    has_asend = sc.src.flavour in ("agen", "aiter_full", "aiter_sendonly")
    trace = []
    problems = []
    model = {"cursor": 0, "open": True, "closed": False, "exhausted": False, "signalled_stop": False}
    transient_ok = sc.src.flavour != "agen"  # an async generator that raises is finished for good
    from ..actors import InjectedFault
    fn_true = make_async_fn(world, FnPlan("ftrue", "lt", 10 ** 6, "def")).obj
    fn_false = make_async_fn(world, FnPlan("ffalse", "lt", -10 ** 6, "async")).obj
    fn_comb = make_async_fn(world, FnPlan("fcomb", "ident", 0, "def")).obj
    fn_comb2 = make_async_fn(world, FnPlan("fcomb2", "combine", 0, "def")).obj

    async def settle():
        # let finalisers of abandoned generators run before the next op
        gc.collect()
        for _ in range(50):
            if all(t.done for t in sim.tasks if t.is_finalizer):
                break
            await sim.suspend(PAUSE, None, "history")

    def check(i, opname):
        delivered = [e[2] for e in sim.log if e[0] == "item" and e[1] == src.name]
        if delivered != list(range(model["cursor"])):
            problems.append(("C07.underlying_delivery_differs", (opname,), i,
                             {"delivered": delivered, "model_cursor": model["cursor"]}))
        closed = src.n_aclose > 0 or (sc.src.flavour == "agen" and src.finalised and not src.exhausted)
        if closed:
            problems.append(("C07.underlying_closed", (opname,), i, {"aclose": src.n_aclose, "finalised": src.finalised}))

    def expect_next(through_handle):
        if through_handle and not model["open"]:
            return ("stop",)
        c = model["cursor"]
        if c < n:
            model["cursor"] = c + 1
            return ("item", ident(items[c]))
        if through_handle:
            model["open"] = False  # the wrapper ran off the end: nothing more comes out of it
            model["exhausted"] = True
        return ("stop",)

    async def do_next(it):
        try:
            item = await it.__anext__()
        except StopAsyncIteration:
            return ("stop",)
        return ("item", ident(item))

    kept = []  # (tool iterator over the handle, stdlib twin over the model's view of the handle), still in use

    async def drop_kept():
        # tools still holding the handle are closed by their owner: a started tool closes its input
        while kept:
            it_, _rit, _info = kept.pop()
            await it_.aclose()
            model["open"] = False
            model["closed"] = True
            out.probes["closed_by_tool"] = 1

    async def history():
        b = L.borrow(underlying)
        for i, op in enumerate(sc.ops):
            kind = op[0]
            name = ("next_b", "next_u", "close_b", "close_iter_b", "asend", "tool", "reborrow", "drop_gc",
                    "athrow", "agg", "reborrow_handle", "fault_next_b", "fault_next_u", "ladder", "close_during_pull",
                    "tool_kept", "kept_tool_step")[kind]
            if kind == 0:
                got = await do_next(b)
                exp = expect_next(True)
            elif kind == 1:
                got = await do_next(underlying)
                exp = expect_next(False)
            elif kind == 2:
                await b.aclose()
                model["open"] = False
                model["closed"] = True
                got = exp = ("closed",)
                out.probes["closed_directly"] = 1
            elif kind == 3:
                await b.__aiter__().aclose()
                model["open"] = False
                model["closed"] = True
                got = exp = ("closed",)
                out.probes["closed_via_iter"] = 1
            elif kind == 4:
                if not has_asend:
                    got = ("no_asend",) if not hasattr(b, "asend") else ("has_asend",)
                    exp = ("no_asend",)
                else:
                    out.probes["asend_used"] = 1
                    if model["closed"] is not None:
                        try:
                            item = await b.asend(None)
                            got = ("item", ident(item))
                        except StopAsyncIteration:
                            got = ("stop",)
                    if model["closed"] is None:
                        got = exp = ("skipped",)
                    elif model["closed"]:
                        exp = ("stop",)
                    else:
                        # until the handle is closed asend goes straight to the underlying iterator, past the
                        # forwarding wrapper (which may be unstarted, exhausted or dead from a transient error)
                        exp = expect_next(False)
            elif kind == 5:
                _, spec, j, then, hpos = op
                tname = spec.tool
                name = "tool:" + tname
                tool = TOOLS[tname]
                w = World(sim, own_log=True)
                others = [make_async_source(w, p).obj for n_, p in enumerate(spec.srcs) if n_ != hpos]
                others.insert(hpos, b)
                fns = [make_async_fn(w, p).obj if p is not None else None for p in spec.fns]
                it = tool.a(L, spec, others, fns)
                del others
                got_items, got_end = [], None
                for _ in range(j):
                    try:
                        item = await it.__anext__()
                    except StopAsyncIteration:
                        got_end = "stop"
                        break
                    except (ValueError, TypeError) as err:
                        got_end = type(err).__name__
                        break
                    got_items.append(ident(item))
                    del item
                # model: the stdlib tool over the model's view of the handle
                model["signalled_stop"] = False
                model["touched"] = False
                rw = World()
                rothers = [make_ref_source(rw, p).obj for n_, p in enumerate(spec.srcs) if n_ != hpos]
                rothers.insert(hpos, ModelIter(model, items))
                rfns = [make_ref_fn(rw, p).obj if p is not None else None for p in spec.fns]
                exp_items, exp_end = [], None
                rit = iter(tool.r(spec, rothers, rfns))
                for _ in range(j):
                    try:
                        ritem = next(rit)
                    except StopIteration:
                        exp_end = "stop"
                        break
                    except (ValueError, TypeError) as err:
                        exp_end = type(err).__name__
                        break
                    exp_items.append(ident(ritem))
                started = j > 0
                if tname == "chain" and spec.p["form"] == 1:
                    # chain.from_iterable owns only the members it has fetched: the handle, if it got that far
                    started = started and model["touched"]
                if got_end is None:
                    if then == 0 or (then == 1 and tool.infinite):
                        await it.aclose()
                        # chain(*iterables) is a handle that owns its arguments even when never advanced;
                        # chain.from_iterable owns only what it has fetched
                        if started or (tname == "chain" and spec.p["form"] == 0):
                            model["open"] = False
                            model["closed"] = True
                            out.probes["closed_by_tool"] = 1
                    elif then == 1:
                        while True:
                            try:
                                item = await it.__anext__()
                            except StopAsyncIteration:
                                got_end = "exhausted"
                                break
                            except (ValueError, TypeError) as err:
                                got_end = type(err).__name__
                                break
                            got_items.append(ident(item))
                            del item
                            if len(got_items) > 3000:
                                got_end = "runaway"
                                break
                        while exp_end is None:
                            try:
                                exp_items.append(ident(next(rit)))
                            except StopIteration:
                                exp_end = "exhausted"
                            except (ValueError, TypeError) as err:
                                exp_end = type(err).__name__
                        model["open"] = False
                        model["closed"] = True
                        out.probes["closed_by_tool"] = 1
                    else:
                        out.probes["tool_abandoned"] = 1
                        del it
                        await settle()
                        # whether the finalisation of an abandoned tool ends the handle it was given is the tool's
                        # business (a generator-based tool does, a class-based one need not): the owner of the handle
                        # closes it now, what matters is that the underlying iterator stays open through all of this
                        await b.aclose()
                        model["open"] = False
                        model["closed"] = True
                        if started:
                            out.probes["closed_by_gc"] = 1
                else:
                    # the tool ended by itself (exhaustion or an error of its own): it closed its input
                    model["open"] = False
                    model["closed"] = True
                    out.probes["closed_by_tool"] = 1
                it = None
                if model["closed"] is True and model["signalled_stop"]:
                    # the handle told the tool it was at its end: a tool may close such an input or simply drop it
                    # (zip_longest swaps it for its fill iterator) - both are fine, so "closed" is not known now
                    model["closed"] = None
                got = ("tool", tuple(got_items), got_end)
                exp = ("tool", tuple(exp_items), exp_end)
            elif kind == 9:
                spec = op[1]
                name = "agg:" + spec.tool
                agg = AGGS[spec.tool]
                w = World(sim, own_log=True)
                fns = [make_async_fn(w, p).obj if p is not None else None for p in spec.fns]
                try:
                    got = ("value", ident(await agg.a(L, spec, [b], fns)))
                except (ValueError, TypeError) as err:
                    got = ("error", type(err).__name__)
                rw = World()
                rfns = [make_ref_fn(rw, p).obj if p is not None else None for p in spec.fns]
                try:
                    exp = ("value", ident(agg.r(spec, [ModelIter(model, items)], rfns)))
                except (ValueError, TypeError) as err:
                    exp = ("error", type(err).__name__)
                if got[0] == "error" and exp[0] == "error":
                    # how far a *failing* aggregation got may differ legitimately (the stdlib's sorted gathers all
                    # items before calling the key, asyncstdlib calls it item by item): take the actual position
                    model["cursor"] = sum(1 for e in sim.log if e[0] == "item" and e[1] == src.name)
                # an aggregation releases (closes) its source before it returns
                model["open"] = False
                model["closed"] = True
                out.probes["closed_by_tool"] = 1
            elif kind == 8:
                # athrow through a *closed* handle must not reach the underlying iterator
                if model["closed"] is not True or model["exhausted"] or not hasattr(b, "athrow"):
                    got = exp = ("skipped",)
                else:
                    out.probes["athrow_on_closed_handle"] = 1
                    n_before = src.n_pulls
                    try:
                        await b.athrow(KeyError("thrown through the handle"))
                    except BaseException as err:  # noqa
                        if type(err).__name__ == "Cancel":
                            raise
                    got = ("athrow", src.n_pulls - n_before, sum(1 for e in sim.log if e[0] == "athrow"))
                    exp = ("athrow", 0, 0)
            elif kind == 10:
                # a borrowed handle can be borrowed again: the new handle sees what the old one would
                await drop_kept()
                b = L.borrow(b)
                got = exp = ("borrowed_handle",)
            elif kind in (11, 12):
                if not transient_ok:
                    got = exp = ("skipped",)
                else:
                    out.probes["transient_error"] = 1
                    fault = InjectedFault("transient")
                    world.set_fault(src.name, src.n_pulls, fault)
                    through = kind == 11
                    reaches = (not through) or model["open"]
                    try:
                        await (b if through else underlying).__anext__()
                        got = ("no_error",)
                    except StopAsyncIteration:
                        got = ("stop",)
                    except InjectedFault as err:
                        got = ("fault", err is fault)
                    world.set_fault(None, -1, None)
                    if reaches:
                        exp = ("fault", True)
                        if through:
                            # the forwarding generator is finished by the error; the handle itself was not closed
                            model["open"] = False
                    else:
                        exp = ("stop",)
            elif kind in (15, 16):
                def tool_ended():
                    # the tool ended by itself (exhaustion or an error of its own): it has released its input
                    model["open"] = False
                    model["closed"] = None if model["signalled_stop"] else True
                    out.probes["closed_by_tool"] = 1

                if kind == 15:
                    _, spec, j, hpos = op
                    name = "tool_kept:" + spec.tool
                    tool = TOOLS[spec.tool]
                    w = World(sim, own_log=True)
                    others = [make_async_source(w, p).obj for n_, p in enumerate(spec.srcs) if n_ != hpos]
                    others.insert(hpos, b)
                    fns = [make_async_fn(w, p).obj if p is not None else None for p in spec.fns]
                    it = tool.a(L, spec, others, fns)
                    del others
                    model["signalled_stop"] = False
                    model["touched"] = False
                    rw = World()
                    rothers = [make_ref_source(rw, p).obj for n_, p in enumerate(spec.srcs) if n_ != hpos]
                    rothers.insert(hpos, ModelIter(model, items))
                    rfns = [make_ref_fn(rw, p).obj if p is not None else None for p in spec.fns]
                    rit = iter(tool.r(spec, rothers, rfns))
                    steps = j
                    kept_info = {"tee_children": spec.p["n"] if spec.tool == "tee" else None, "done": set(),
                                 "retee": spec.p.get("retee"), "split_seen": False, "half_closed": set()}
                    out.probes["tool_kept"] = 1
                else:
                    if not kept:
                        got = exp = ("nothing_kept",)
                        steps = 0
                    else:
                        it, rit, kept_info = kept.pop()
                        steps = 1
                if kind == 15 or steps:
                    got_items, exp_items, got_end, exp_end = [], [], None, None
                    for _ in range(steps):
                        try:
                            got_items.append(ident(await it.__anext__()))
                        except StopAsyncIteration:
                            got_end = "stop"
                        except (ValueError, TypeError) as err:
                            got_end = type(err).__name__
                        try:
                            exp_items.append(ident(next(rit)))
                        except StopIteration:
                            exp_end = "stop"
                        except (ValueError, TypeError) as err:
                            exp_end = type(err).__name__
                        if got_end or exp_end:
                            break
                    if kept_info["tee_children"] is not None:
                        # the tee driver reports the end of each child as an event of its own: once every child has ended
                        # (or was closed) the tee has released - closed - its source, the handle
                        # (a child that was split again stays the original tee's child: it has ended once one of its halves
                        # was told the end, or once both halves were closed)
                        n_orig = kept_info["tee_children"]
                        k_split = kept_info["retee"][1] if kept_info["retee"] else None
                        for ev in exp_items:
                            if not (ev[0] == "t" and len(ev) == 3 and type(ev[1]) is tuple and ev[1][0] == "int"):
                                continue
                            c = int(ev[1][1])
                            if ev[2] == ("t", ("str", "'split'")):
                                kept_info["split_seen"] = True
                            elif ev[2] in (("t", ("str", "'stop'")), ("t", ("str", "'closed'"))):
                                if kept_info["split_seen"] and c in (k_split, n_orig):
                                    if ev[2] == ("t", ("str", "'stop'")):
                                        kept_info["done"].add(k_split)
                                    else:
                                        kept_info["half_closed"].add(c)
                                        if kept_info["half_closed"] >= {k_split, n_orig}:
                                            kept_info["done"].add(k_split)
                                else:
                                    kept_info["done"].add(c)
                    if got_end is None and exp_end is None:
                        kept.append((it, rit, kept_info))
                        if kept_info["tee_children"] is not None and len(kept_info["done"]) >= kept_info["tee_children"] \
                                and model["closed"] is False:
                            tool_ended()
                    elif exp_end is not None:
                        tool_ended()
                    it = rit = None
                    got = ("kept", tuple(got_items), got_end)
                    exp = ("kept", tuple(exp_items), exp_end)
            elif kind == 14:
                # a second task pulls through the handle and is (if the underlying suspends) still inside that pull
                # when this task closes the handle: the library may refuse the close ("already running") - then the
                # handle simply stays open - or perform it; either way the pull in flight delivers what it was after
                side_res = []

                started = []

                async def side(handle=b):
                    started.append(1)
                    side_res.append(await do_next(handle))

                exp_pull = expect_next(True)
                side_task = sim.spawn(side(), "side")
                for _ in range(200):
                    # (whoever the scheduler picks: the pull has begun before the close is attempted)
                    if started:
                        break
                    await sim.suspend(PAUSE, None, "history")
                in_flight = not side_task.done
                try:
                    await b.aclose()
                    closed_now = True
                except RuntimeError:
                    closed_now = False
                for _ in range(200):
                    if side_task.done:
                        break
                    await sim.suspend(SLEEP, 20, "history")  # (virtual time must pass for a sleeping source)
                if in_flight:
                    out.probes["close_during_pull"] = 1
                if closed_now:
                    model["open"] = False
                    model["closed"] = True
                    out.probes["closed_directly"] = 1
                got = ("close_during_pull", side_res[0] if side_res else None, closed_now if not in_flight else "any")
                exp = ("close_during_pull", exp_pull, True if not in_flight else "any")
                if in_flight and closed_now and side_res and side_res[0] != exp_pull:
                    pass
            elif kind == 13:
                _, depth, steps = op
                out.probes["handle_ladder"] = 1
                rungs = [L.borrow(underlying)]
                for _ in range(depth - 1):
                    rungs.append(L.borrow(rungs[-1]))
                is_open = [True] * depth
                closed_self = [False] * depth
                got_l, exp_l = [], []
                for what, k in steps:
                    if what in (2, 3):
                        # a rung that was closed itself no longer reaches the underlying iterator, whatever became of the others
                        meth = getattr(rungs[k], "asend" if what == 2 else "athrow", None)
                        if not closed_self[k] or meth is None:
                            continue
                        out.probes["ladder_send_or_throw_through_closed_rung"] = 1
                        n_before = src.n_pulls
                        n_log = sum(1 for e in sim.log if e[0] in ("asend", "athrow"))
                        try:
                            await (meth(None) if what == 2 else meth(KeyError("thrown through a closed rung")))
                        except BaseException as err:  # noqa
                            if type(err).__name__ == "Cancel":
                                raise
                        got_l.append(("through_closed", k, src.n_pulls - n_before,
                                      sum(1 for e in sim.log if e[0] in ("asend", "athrow")) - n_log))
                        exp_l.append(("through_closed", k, 0, 0))
                        del meth
                    elif what == 0:
                        got_l.append(await do_next(rungs[k]))
                        # rung k delivers iff every rung from the bottom up to k is still open; the rungs above a
                        # closed one run off its end and are finished from then on
                        shut = next((j for j in range(k + 1) if not is_open[j]), None)
                        if shut is not None:
                            for j in range(shut, k + 1):
                                is_open[j] = False
                            exp_l.append(("stop",))
                        else:
                            e = expect_next(False)
                            if e == ("stop",):
                                for j in range(k + 1):
                                    is_open[j] = False
                            exp_l.append(e)
                    else:
                        await rungs[k].aclose()
                        is_open[k] = False
                        closed_self[k] = True
                        got_l.append(("closed", k))
                        exp_l.append(("closed", k))
                for r in reversed(rungs):
                    await r.aclose()
                del rungs, r
                got, exp = ("ladder", tuple(got_l)), ("ladder", tuple(exp_l))
            elif kind == 6:
                await drop_kept()
                b = L.borrow(underlying)
                model["open"] = True
                model["closed"] = model["exhausted"] = False
                got = exp = ("borrowed",)
                out.probes["reborrowed"] = 1
                await settle()
            else:
                await drop_kept()
                del b
                await settle()
                b = L.borrow(underlying)
                model["open"] = True
                model["closed"] = model["exhausted"] = False
                got = exp = ("dropped",)
            trace.append((name, got, exp))
            if got != exp:
                problems.append(("C07.result_differs_from_model", (name.split(":")[0],), i, {"got": got, "expected": exp}))
                return
            check(i, name.split(":")[0])
            if problems:
                return
            if not model["open"] and kind in (1,):
                out.probes["underlying_used_after_close"] = 1
        await drop_kept()
        check(len(sc.ops), "end")

    sim.spawn(history())
    run_sim(sim)

    def describe():
        return {"underlying": sc.src.describe(),
                "ops": [[o[0], o[1].describe()] + list(o[2:]) if o[0] in (5, 9, 15) else list(o) for o in sc.ops],
                "trace": [repr(t) for t in trace], "model": dict(model)}

    if sim.deadlock:
        out.violate("C07.deadlock", (), describe())
    elif not sim.capped:
        for clause, sig, i, detail in problems[:1]:
            out.violate(clause, sig, dict(describe(), op_index=i, detail=detail))
        if not problems and len(trace) != len(sc.ops):
            hist = sim.tasks[0]
            out.violate("C07.history_did_not_finish", (type(hist.error).__name__,), dict(describe(), error=repr(hist.error)))
    closed_once = any(out.probes.get(k) for k in ("closed_directly", "closed_via_iter", "closed_by_tool", "closed_by_gc"))
    out.nontrivial = bool(closed_once and out.probes.get("underlying_used_after_close"))
    out.shape = (sc.src.flavour, len(items),
                 tuple((o[0], o[1].shape_key()) + tuple(o[2:]) if o[0] in (5, 9, 15) else o for o in sc.ops))
    if out.probes.get("closed_directly") or out.probes.get("closed_via_iter"):
        out.faults["handle_closed"] = 1
    if out.probes.get("tool_abandoned"):
        out.faults["tool_abandoned"] = 1
    if ctx.want_sample:
        out.sample = describe()
    if ctx.want_log:
        out.log = [sim.log, trace, sim.trace]
    return finish_outcome(out, st, sim, ctx)


def explore(st, ctx):
    return [execute(st, ctx)]
