"""
C08 - scoped_iter keeps an iterator alive for the block and closes it exactly at exit.

A block program (tool applications on the scoped handle, nested scopes, direct pulls) runs inside
``async with scoped_iter(...)`` in the simulator.  Fault enumeration over the exit points of one
sampled program: fall-through, an exception raised after every op, a cancellation at every
suspension point of the block.
"""

import gc

from ..actors import World, make_async_source, make_async_fn, make_ref_fn, make_ref_source, ident
from ..choice import Chooser, Streams
from ..loop import PAUSE, Cancel
from ..runner import Outcome
from ..tools import TOOLS, AGGS, AGG_NAMES, draw_cfg, Gen, lib
from .common import set_interrupts, COMPONENTS_BASE, run_sim, new_sim, finish_outcome, enumerate_faults

PID = "C08"
LEVEL = "fault_enumeration"
BUDGET = {"quick": 8000, "thorough": 120000}
RULE = (
    "each run samples a block program: <=6 ops over {apply tool T to the current scoped handle (18 tools of C01 incl. groupby and merge, "
    "further sources real), take j, then close / exhaust / abandon(+gc); pull the handle directly; enter a nested "
    "scoped_iter(handle) (depth <=3); leave the innermost scope} on an underlying iterator of 0..8 items (async "
    "generator, class-based with/without aclose, async iterable, sync iterable, a proxy forwarding aclose dynamically), "
    "the handle standing in for any one of the tool's iterable arguments, and enumerates its exit points: "
    "fall-through, exception after op i for every i, cancel at suspension c for every c of the fault-free run "
    "(one program in four: all of them; the others: fall-through plus three sampled exit points). "
    "Oracle: items obtained by every completed tool application == the stdlib tools over one shared sync iterator; "
    "underlying closed 0 times inside the block and exactly once at the outermost exit; a left scope's handle yields "
    "nothing, outer handles keep working; the same exception leaves the block. Non-trivial: >=2 tool applications "
    "or a nested scope, and the exit point was reached; distinct = distinct (program, exit point)."
    " Extensions of rounds 9-12: tools advanced up to 10 steps, tools handing out further iterators drawn more often; aggregations over the handle; callables failing with a TypeError at one of their first calls (tools; min/max/reduce); merge with a key."
    " Round 13: merge in reverse direction; rarely a long stream with a selection of 1024+ items failing at an unorderable item."
    " Round 14: the exception leaving the block is a GeneratorExit one time in five (the block sits in an async generator that is closed while parked inside it)."
)
COMPONENTS = COMPONENTS_BASE
ASSUMPTIONS = [
    "reference for items = CPython stdlib tools sharing one synchronous iterator",
    "underlying iterators without aclose get a neutral context by design: only the item differential is judged for them",
    "closing = aclose awaited exactly once (class-based) / generator frame gone (async generator)",
]
PROBES = ("source_is_a_borrowed_handle", "cancel_at_block_level_before_first_pull", "nested_scope", "inner_exception_caught_outer_continues", "exit_by_exception", "exit_by_cancel", "cancel_inside_tool", "tool_abandoned",
          "inner_scope_left_then_outer_used", "underlying_without_aclose", "tool_closed_midway")

TOOL_NAMES = ("zip", "map", "filter", "filterfalse", "enumerate", "accumulate", "batched", "chain", "compress",
              "cycle", "dropwhile", "takewhile", "islice", "pairwise", "zip_longest", "tee", "groupby", "merge")


class BlockStop(StopAsyncIteration):
    """What a bare ``await anext(exhausted)`` inside the block raises - an exception like any other to the scope"""


class BlockError(Exception):
    pass


#: what leaves the block when it sits in an async generator that is closed while parked inside the block: the plain
#: class, as the interpreter throws it (a subclass would not meet code that tests ``exc_type is GeneratorExit``)
BlockExit = GeneratorExit


class ScopeError(Exception):
    """Raised by a ('raise',) op inside a scope; caught outside the nearest nested scope with catch=1"""


def skip_to_matching_leave(ops, start):
    depth = 0
    i = start
    while i < len(ops):
        if ops[i][0] == "enter":
            depth += 1
        elif ops[i][0] == "leave":
            if depth == 0:
                return i + 1
            depth -= 1
        i += 1
    return i


class Prep:
    pass


def prepare(ch):
    prep = Prep()
    cfg = draw_cfg(ch, odd_items=False)
    cfg.max_len = 8
    prep.cfg = cfg
    prep.interrupt = ch.draw(4)
    g = Gen(ch, cfg, "")
    items = g.items(ch.draw(9), falsy=True)
    prep.src = g.src(items, ("agen", "aiter_cls", "aiterable", "aiter_noclose", "agen", "aiter_full", "sync_iter", "list", "aiter_proxy"))
    # the iterable handed to scoped_iter may itself be a borrowed handle: the scope must end *that* handle at exit
    # (and, being only borrowed, what is underneath stays open)
    prep.src.lazy_open = False  # (the probes after the block advance iterators directly)
    prep.block_stop = ch.chance(1, 4)  # the exception leaving the block is a StopAsyncIteration
    prep.block_exit = ch.chance(1, 5)  # ... or a GeneratorExit (round 14: the enclosing async generator was closed)
    prep.borrowed = prep.src.flavour in ("agen", "aiter_cls", "aiter_full") and ch.chance(1, 6)
    ops = []
    depth = 1
    if ch.chance(1, 300):
        # once in a while a long underlying stream and a selection of more than a thousand items from it that fails at an
        # item which cannot be ordered: the handle goes on from where the stdlib's heap left a shared iterator
        from ..actors import Item, Unorderable
        n_sel = 1024 + ch.draw(8)
        bad_at = n_sel + 2 + ch.draw(20)
        long_items = [Item(i % 7, ("L", i)) for i in range(bad_at + 30)]
        long_items[bad_at] = Unorderable(("L", bad_at))
        prep.src = g.src(long_items, ("list", "aiter_noclose", "sync_iter"))
        prep.src.suspend = ()
        prep.src.lazy_open = False
        prep.borrowed = False
        gt = Gen(ch, cfg, "t0")
        aspec = AGGS[("nlargest", "nsmallest")[ch.draw(2)]].gen(gt)
        aspec.p["n"] = n_sel
        aspec.fns = [None]
        ops = [("agg", aspec), ("pull", 2)]
        prep.giant = True
    for _ in range(ch.between(1, 6) if not ops else 0):
        # tool | direct pull | enter nested | leave nested | raise inside scope | nested scope that fails and is caught
        kind = ch.weighted([6, 2, 2, 2, 1, 2, 2])
        if kind == 6:
            ops.append(("pause", ch.between(1, 2)))  # the block itself suspends (a crash point outside any pull)
            continue
        if kind == 5:
            if depth < 3 and len(ops) < 6:
                ops.append(("enter", 1))
                if ch.chance(1, 2):
                    ops.append(("pull", 1))
                ops.append(("raise",))
                ops.append(("leave",))
                continue
            kind = 1
        if kind == 0 and ch.chance(1, 6):
            # an awaitable aggregation over the handle (it takes what the stdlib function would take from a shared iterator)
            gt = Gen(ch, cfg, "t%d" % len(ops))
            gt.uid = 1000 * (len(ops) + 1)
            aspec = AGGS[AGG_NAMES[ch.draw(len(AGG_NAMES))]].gen(gt)
            # (only where both worlds call it item by item: sorted and the n-best gather first in the stdlib, so how far
            # a *failing* one got differs by design)
            if aspec.tool in ("min", "max", "reduce") and any(f is not None for f in aspec.fns) and ch.chance(1, 3):
                aspec.p["c08_fault"] = ch.draw(3)  # its callable fails at one of its first calls
            ops.append(("agg", aspec))
            continue
        if kind == 0:
            gt = Gen(ch, cfg, "t%d" % len(ops))
            gt.uid = 1000 * (len(ops) + 1)
            name = TOOL_NAMES[ch.draw(len(TOOL_NAMES))]
            if ch.chance(1, 4):
                # the tools that hand out further iterators over the handle have the most ways to go wrong
                name = ("groupby", "tee", "merge", "groupby")[ch.draw(4)]
            spec = TOOLS[name].gen(gt)
            if not spec.srcs:
                # zip()/zip_longest() without arguments: give it the handle as only source
                spec.srcs = [gt.src([])]
            if name == "batched" and spec.p["n"] < 1:
                spec.p["n"] = 1
            if name == "chain" and spec.p["form"] == 2:
                spec.p["form"] = 1  # the lazy outer source is built per world by the shared builder, not here
                spec.srcs.pop()
            if spec.p.get("alias"):
                spec.p["alias"] = None
            if name == "merge":
                # merge promises the stdlib's order for sorted inputs only: plain ascending order everywhere, and the
                # underlying iterator of the scope is sorted too
                spec.fns = [gt.fn("keyval", 0) if ch.chance(1, 2) else None]  # (a key that keeps that order)
                # one direction per block (the underlying iterator is sorted that way as well)
                if not hasattr(prep, "merge_reverse"):
                    prep.merge_reverse = ch.chance(1, 3)
                spec.p["reverse"] = prep.merge_reverse
                for p_ in spec.srcs:
                    p_.items = sorted([i for i in p_.items if type(i).__name__ == "Item"], key=lambda i: i.key,
                                      reverse=prep.merge_reverse)
                prep.sort_underlying = True
            if any(f is not None for f in spec.fns) and ch.chance(1, 3):
                # the tool's callable fails (with a TypeError) at one of its first calls: the error is handled inside the
                # block, and the handle goes on from where the stdlib tool would have left a shared iterator
                spec.p["c08_fault"] = ch.weighted([3, 1, 1])
            # the handle takes the place of one of the tool's iterable arguments (not always the first)
            # (drivers such as groupby's deliver several events per item: more steps are needed to get anywhere)
            take = ch.draw(5) if ch.chance(2, 3) else ch.between(5, 10)
            ops.append(("tool", spec, take, ch.draw(3), ch.draw(len(spec.srcs))))
        elif kind == 1:
            ops.append(("pull", ch.between(1, 2)))
        elif kind == 2 and depth < 3:
            # catch=1: an exception raised inside the nested scope is caught right outside of it
            ops.append(("enter", ch.draw(2)))
            depth += 1
        elif kind == 4:
            ops.append(("raise",))
        elif kind == 3 and depth > 1:
            ops.append(("leave",))
            depth -= 1
        else:
            ops.append(("pull", 1))
    prep.ops = ops
    if getattr(prep, "sort_underlying", False):
        prep.src.items.sort(key=lambda i: i.key, reverse=getattr(prep, "merge_reverse", False))
    # dry run (fault free) to learn the number of suspension points of the block
    st = Streams(Chooser(replay=[]), Chooser(replay=[0]), Chooser(replay=[]))
    sim, res = run_block(prep, st, 0, 0, interrupts=0)
    prep.n_susp = sim.tasks[0].nsusp
    return prep


def fault_lists(prep, faults):
    out = [[0]]
    for i in range(len(prep.ops) + 1):
        out.append([1, i])
    for c in range(0, prep.n_susp):
        out.append([2, c])  # replayed as c, run as suspension point c + 1
    if faults.draw(4) == 0 or len(out) <= 4:
        return out
    # three scenarios in four: the fault-free execution and three sampled crash points only, so that
    # more distinct block histories are explored for the same cost
    return [out[0]] + [out[1 + faults.draw(len(out) - 1)] for _ in range(3)]


def describe_ops(ops):
    out = []
    for op in ops:
        if op[0] == "agg":
            out.append(["aggregation", op[1].describe()])
        elif op[0] == "tool":
            out.append(["tool", op[1].describe(), "take %d" % op[2], ("close", "exhaust", "abandon")[op[3]], "handle is argument %d" % op[4]])
        else:
            out.append(list(op))
    return out


def run_block(prep, st, mode, pos, interrupts):
    sim = new_sim(st, interrupts=False)
    set_interrupts(sim, interrupts)
    world = World(sim)
    L = lib()
    src = make_async_source(world, prep.src)
    given = L.borrow(src.obj) if prep.borrowed else src.obj
    res = {"apps": [], "problems": [], "exit": None, "handles_after": None, "left": [], "inside_closed": False,
           "reached": False, "given_after": None}

    async def settle():
        gc.collect()
        for _ in range(50):
            if all(t.done for t in sim.tasks if t.is_finalizer):
                break
            await sim.suspend(PAUSE, None, "block")

    def underlying_closed():
        if prep.src.flavour == "agen":
            return src.finalised and not src.exhausted and not src.killed
        return src.n_aclose > 0

    async def block():
        handles = []
        left = []
        try:
            async with L.scoped_iter(given) as h1:
                handles.append(h1)
                await run_ops(prep.ops, 0, handles, left)
                res["exit"] = "fallthrough"
        except (BlockError, ScopeError, BlockStop, BlockExit):
            res["exit"] = "exception"
        except Cancel:
            res["exit"] = "cancel"
            res["handles_after"] = await probe_handles(handles + left)
            raise
        sim.cancel_plan.clear()  # crash points are inside the block only
        res["handles_after"] = await probe_handles(handles + left)
        if prep.borrowed:
            res["given_after"] = await probe_dead(given)

    async def probe_handles(hs):
        if prep.src.flavour == "aiter_noclose":
            return []  # neutral context by design: the "handle" is the iterator itself
        out_ = []
        for h in hs:
            out_.append(await probe_dead(h))
        return out_

    async def probe_dead(h):
        """A handle whose scope is over yields nothing - neither through anext nor through asend / athrow"""
        try:
            await h.__anext__()
            return "item"
        except StopAsyncIteration:
            pass
        except BaseException as err:  # noqa
            return type(err).__name__
        pulls = src.n_pulls
        if hasattr(h, "asend"):
            try:
                await h.asend(None)
                return "item_via_asend"
            except StopAsyncIteration:
                pass
            except BaseException as err:  # noqa
                return "asend:" + type(err).__name__
        if hasattr(h, "athrow"):
            try:
                await h.athrow(KeyError("thrown into a dead handle"))
            except BaseException as err:  # noqa
                if type(err).__name__ == "Cancel":
                    raise
        if src.n_pulls != pulls or any(e[0] == "athrow" for e in sim.log):
            return "reached_underlying"
        return "stop"

    async def run_ops(ops, start, handles, left):
        i = start
        while i < len(ops):
            if mode == 1 and pos == i:
                res["reached"] = True
                raise (BlockExit if prep.block_exit else BlockStop if prep.block_stop else BlockError)("after op %d" % i)
            op = ops[i]
            h = handles[-1]
            if op[0] == "tool":
                _, spec, j, then, hpos = op
                tool = TOOLS[spec.tool]
                w = World(sim, own_log=True)
                others = [make_async_source(w, p).obj for n_, p in enumerate(spec.srcs) if n_ != hpos]
                fns = [make_async_fn(w, p).obj if p is not None else None for p in spec.fns]
                if spec.p.get("c08_fault") is not None:
                    w.set_fault([p.name for p in spec.fns if p is not None][0], spec.p["c08_fault"], TypeError("prepared"))
                app = {"op": i, "tool": spec.tool, "items": [], "end": None}
                res["apps"].append(app)
                others.insert(hpos, h)
                it = tool.a(L, spec, others, fns)
                del others
                try:
                    for _ in range(j):
                        try:
                            item = await it.__anext__()
                        except StopAsyncIteration:
                            app["end"] = "stop"
                            break
                        except (ValueError, TypeError) as err:
                            app["end"] = type(err).__name__
                            break
                        app["items"].append(ident(item))
                        del item
                    if app["end"] is None:
                        if then == 0 or (then == 1 and tool.infinite):
                            await it.aclose()
                            app["end"] = "closed"
                        elif then == 1:
                            while True:
                                try:
                                    item = await it.__anext__()
                                except StopAsyncIteration:
                                    break
                                except (ValueError, TypeError) as err:
                                    app["end"] = type(err).__name__
                                    break
                                app["items"].append(ident(item))
                                del item
                                if len(app["items"]) > 3000:
                                    app["end"] = "runaway"
                                    break
                            if app["end"] is None:
                                app["end"] = "exhausted"
                        else:
                            app["end"] = "abandoned"
                            del it
                            await settle()
                finally:
                    it = None
                if underlying_closed():
                    res["inside_closed"] = True
                i += 1
            elif op[0] == "agg":
                spec = op[1]
                w = World(sim, own_log=True)
                fns = [make_async_fn(w, p).obj if p is not None else None for p in spec.fns]
                if spec.p.get("c08_fault") is not None:
                    w.set_fault([p.name for p in spec.fns if p is not None][0], spec.p["c08_fault"], TypeError("prepared"))
                app = {"op": i, "tool": "agg:" + spec.tool, "items": [], "end": None}
                res["apps"].append(app)
                try:
                    app["items"].append(ident(await AGGS[spec.tool].a(L, spec, [h], fns)))
                    app["end"] = "value"
                except (ValueError, TypeError) as err:
                    app["end"] = type(err).__name__
                if underlying_closed():
                    res["inside_closed"] = True
                i += 1
            elif op[0] == "pull":
                app = {"op": i, "tool": "direct", "items": [], "end": None}
                res["apps"].append(app)
                for _ in range(op[1]):
                    try:
                        item = await h.__anext__()
                    except StopAsyncIteration:
                        app["end"] = "stop"
                        break
                    app["items"].append(ident(item))
                    del item
                if app["end"] is None:
                    app["end"] = "partial"
                i += 1
            elif op[0] == "pause":
                for _ in range(op[1]):
                    await sim.suspend(PAUSE, None, "block")
                i += 1
            elif op[0] == "raise":
                raise ScopeError("op %d" % i)
            elif op[0] == "enter":
                depth0 = len(handles)
                try:
                    async with L.scoped_iter(h) as inner:
                        handles.append(inner)
                        i = await run_ops(ops, i + 1, handles, left)
                except ScopeError:
                    if not op[1]:
                        raise
                    res["caught"] = True
                    i = skip_to_matching_leave(ops, i + 1)
                inner_h = handles[depth0]
                while len(handles) > depth0:
                    left.append(handles.pop())
                res["left"].append(i)
                # the inner scope is over: its handle is dead, the outer ones are not
                if prep.src.flavour != "aiter_noclose":
                    state = await probe_dead(inner_h)
                    if state != "stop":
                        res["problems"].append(("inner_handle_alive_after_scope", i, state))
                if underlying_closed():
                    res["inside_closed"] = True
            else:  # leave
                return i + 1
        if mode == 1 and pos >= len(ops) and len(handles) == 1:
            res["reached"] = True
            raise (BlockExit if prep.block_exit else BlockStop if prep.block_stop else BlockError)("at the end")
        return i

    task = sim.spawn(block())
    if mode == 2:
        sim.cancel_plan[task.id] = pos
    run_sim(sim)
    res["src"] = src
    res["task"] = task
    return sim, res


def reference(prep, upto_apps):
    """The stdlib tools over one shared synchronous iterator, same program"""
    shared = iter(list(prep.src.items))
    apps = []

    def run_ops(ops, start):
        i = start
        while i < len(ops):
            op = ops[i]
            if op[0] == "tool":
                _, spec, j, then, hpos = op
                tool = TOOLS[spec.tool]
                w = World()
                others = [make_ref_source(w, p).obj for n_, p in enumerate(spec.srcs) if n_ != hpos]
                others.insert(hpos, shared)
                fns = [make_ref_fn(w, p).obj if p is not None else None for p in spec.fns]
                if spec.p.get("c08_fault") is not None:
                    w.set_fault([p.name for p in spec.fns if p is not None][0], spec.p["c08_fault"], TypeError("prepared"))
                app = {"op": i, "tool": spec.tool, "items": [], "end": None}
                apps.append(app)
                try:
                    it = iter(tool.r(spec, others, fns))
                except (ValueError, TypeError) as err:
                    app["end"] = type(err).__name__
                    it = None
                if it is not None:
                    for _ in range(j):
                        try:
                            item = next(it)
                        except StopIteration:
                            app["end"] = "stop"
                            break
                        except (ValueError, TypeError) as err:
                            app["end"] = type(err).__name__
                            break
                        app["items"].append(ident(item))
                    if app["end"] is None:
                        if then == 0 or (then == 1 and tool.infinite):
                            app["end"] = "closed"
                        elif then == 1:
                            while True:
                                try:
                                    item = next(it)
                                except StopIteration:
                                    break
                                except (ValueError, TypeError) as err:
                                    app["end"] = type(err).__name__
                                    break
                                app["items"].append(ident(item))
                            if app["end"] is None:
                                app["end"] = "exhausted"
                        else:
                            app["end"] = "abandoned"
                elif j == 0:
                    # the stdlib refuses at construction, the async tool at its first step: not reached
                    app["end"] = ("closed", "exhausted", "abandoned")[then] if then != 1 else app["end"]
                i += 1
            elif op[0] == "agg":
                spec = op[1]
                w = World()
                fns = [make_ref_fn(w, p).obj if p is not None else None for p in spec.fns]
                if spec.p.get("c08_fault") is not None:
                    w.set_fault([p.name for p in spec.fns if p is not None][0], spec.p["c08_fault"], TypeError("prepared"))
                app = {"op": i, "tool": "agg:" + spec.tool, "items": [], "end": None}
                apps.append(app)
                try:
                    app["items"].append(ident(AGGS[spec.tool].r(spec, [shared], fns)))
                    app["end"] = "value"
                except (ValueError, TypeError) as err:
                    app["end"] = type(err).__name__
                i += 1
            elif op[0] == "pull":
                app = {"op": i, "tool": "direct", "items": [], "end": None}
                apps.append(app)
                for _ in range(op[1]):
                    try:
                        item = next(shared)
                    except StopIteration:
                        app["end"] = "stop"
                        break
                    app["items"].append(ident(item))
                if app["end"] is None:
                    app["end"] = "partial"
                i += 1
            elif op[0] == "pause":
                i += 1
            elif op[0] == "raise":
                raise ScopeError("op %d" % i)
            elif op[0] == "enter":
                try:
                    i = run_ops(ops, i + 1)
                except ScopeError:
                    if not op[1]:
                        raise
                    i = skip_to_matching_leave(ops, i + 1)
            else:
                return i + 1
        return i

    try:
        run_ops(prep.ops, 0)
    except ScopeError:
        pass
    return apps


def run_prepared(prep, st, ctx):
    out = Outcome()
    mode = st.faults.draw(3)
    pos = 0
    if mode == 1:
        pos = st.faults.draw(len(prep.ops) + 1)
    elif mode == 2:
        pos = 1 + st.faults.draw(max(prep.n_susp, 1))
        if prep.n_susp == 0:
            mode, pos = 0, 0
    sim, res = run_block(prep, st, mode, pos, (0, 0, 5, 2)[prep.interrupt])
    src = res["src"]
    fl = prep.src.flavour
    modename = ("fallthrough", "exception", "cancel")[mode]
    sig = (modename, fl)

    def describe():
        return {"underlying": prep.src.describe(), "given_as_borrowed_handle": prep.borrowed,
                "given_after": res["given_after"], "ops": describe_ops(prep.ops), "exit_point": [modename, pos],
                "applications": [dict(a) for a in res["apps"]], "exit": res["exit"],
                "handles_after": res["handles_after"], "aclose_count": src.n_aclose, "finalised": src.finalised,
                "cancel_fired_at": sim.cancel_fired_at}

    if sim.deadlock:
        out.violate("C08.deadlock", sig, describe())
    elif not sim.capped:
        task = res["task"]
        if res["exit"] is None:
            out.violate("C08.block_did_not_finish", sig + (type(task.error).__name__,), dict(describe(), error=repr(task.error)))
        else:
            if mode == 2 and sim.cancel_sent is not None:
                if task.error is not sim.cancel_sent:
                    out.violate("C08.cancellation_not_propagated", sig, dict(describe(), error=repr(task.error)))
            elif task.error is not None:
                out.violate("C08.unexpected_error", sig + (type(task.error).__name__,), dict(describe(), error=repr(task.error)))
            # items: every completed application equals the shared-iterator reference
            ref = reference(prep, None)
            apps = res["apps"]
            complete = apps if res["exit"] == "fallthrough" else apps[:-1] if (mode == 2 and apps) else apps
            for a, r in zip(complete, ref):
                if a["end"] is None:
                    break
                if a["items"] != r["items"] or (a["end"] != r["end"]):
                    out.violate("C08.items_differ_from_shared_iterator", (a["tool"],),
                                dict(describe(), application=a, reference=r))
                    break
            if res["problems"]:
                out.violate("C08." + res["problems"][0][0], sig, describe())
            if res["inside_closed"]:
                out.violate("C08.underlying_closed_inside_block", sig, describe())
            if any(x != "stop" for x in (res["handles_after"] or [])):
                out.violate("C08.handle_yields_after_exit", sig, describe())
            if prep.borrowed:
                # scoped_iter(borrow(x)): the borrowed handle is what the scope owns and ends; x itself is only borrowed
                if res["given_after"] not in (None, "stop") and mode != 2:
                    out.violate("C08.borrowed_source_not_ended_at_exit", sig, describe())
                closed_under = src.n_aclose > 0 or (fl == "agen" and src.finalised and not src.exhausted and not src.killed)
                if closed_under:
                    out.violate("C08.closed_through_a_borrowed_handle", sig, describe())
            elif fl in ("aiter_cls", "aiterable", "aiter_full", "aiter_proxy"):
                if src.n_aclose != 1:
                    out.violate("C08.underlying_not_closed_exactly_once", sig + ("count=%d" % src.n_aclose,), describe())
                elif fl == "aiterable" and not all(it.closed_self for it in src.iters):
                    # every cursor the iterable was asked for is the scope's to close, started or not
                    out.violate("C08.iterator_obtained_from_the_iterable_never_closed",
                                sig + ("obtained=%d" % len(src.iters),), describe())
            elif fl == "agen" and not prep.borrowed:
                if src.agen.ag_frame is not None:
                    out.violate("C08.underlying_not_closed_exactly_once", sig + ("count=0",), describe())
    ntools = sum(1 for o in prep.ops if o[0] == "tool")
    nested = any(o[0] == "enter" for o in prep.ops)
    if nested:
        out.probes["nested_scope"] = 1
    if res["left"] and any(a["op"] >= res["left"][0] for a in res["apps"]):
        out.probes["inner_scope_left_then_outer_used"] = 1
    if fl == "aiter_noclose":
        out.probes["underlying_without_aclose"] = 1
    if prep.borrowed:
        out.probes["source_is_a_borrowed_handle"] = 1
    if res.get("caught") and res["left"] and any(a["op"] >= res["left"][0] for a in res["apps"]):
        out.probes["inner_exception_caught_outer_continues"] = 1
    if any(a["end"] == "abandoned" for a in res["apps"]):
        out.probes["tool_abandoned"] = 1
        out.faults["tool_abandoned"] = 1
    if any(a["end"] == "closed" for a in res["apps"]):
        out.probes["tool_closed_midway"] = 1
    reached = True
    if mode == 1:
        reached = res["reached"]
        if reached:
            out.probes["exit_by_exception"] = 1
            out.faults["block_raises"] = 1
    elif mode == 2:
        reached = sim.cancel_sent is not None
        if reached:
            out.probes["exit_by_cancel"] = 1
            out.faults["cancel"] = 1
            if sim.cancel_fired_at and sim.cancel_fired_at[2] != "block":
                out.probes["cancel_inside_tool"] = 1
            elif sim.cancel_fired_at and not res["apps"]:
                out.probes["cancel_at_block_level_before_first_pull"] = 1
    out.fault_free = mode == 0
    out.nontrivial = (ntools >= 2 or nested) and reached
    out.shape = (fl, prep.borrowed, len(prep.src.items), tuple((o[0], o[1].shape_key(), o[2], o[3], o[4]) if o[0] == "tool" else o
                                                for o in prep.ops), modename, pos)
    if ctx.want_sample:
        out.sample = describe()
    if ctx.want_log:
        out.log = [sim.log, [(a["tool"], a["items"], a["end"]) for a in res["apps"]], sim.trace]
    return finish_outcome(out, st, sim, ctx)


def execute(st, ctx):
    prep = prepare(st.scenario)
    out = run_prepared(prep, st, ctx)
    out.lists = st.recorded()
    return out


def explore(st, ctx):
    return enumerate_faults(st, ctx, prepare, run_prepared, fault_lists)
