"""
C09 - tee children all see the full source sequence under every interleaving.

2..4 consumer tasks, one per tee child, are interleaved by the seeded scheduler at every
suspension point: inside the source, at the lock, between items.  Faults: a child closed after j
items, a child abandoned, a consumer cancelled at its c-th suspension, EINTR-like interrupts.
"""

import traceback

from ..actors import World, make_async_source
from ..loop import CANCEL, PAUSE, LOCKWAIT, make_lock_type
from ..runner import Outcome
from ..tools import draw_cfg, Gen, lib
from ..actors import ASYNC_FLAVOURS, SYNC_FLAVOURS
from .common import set_interrupts, COMPONENTS_BASE, COMPONENTS_AIO, run_sim, new_sim, finish_outcome, pick_backend, make_lock

PID = "C09"
LEVEL = "exploration"
BUDGET = {"quick": 250000, "thorough": 5000000}
RULE = (
    "each run draws: n=2..4 children with one consumer task each (take j items then exhaust / aclose / "
    "abandon, 0..2 pauses between items), a source of 0..6 fresh weak-referenceable items of a seeded flavour "
    "suspending 0..2 times per pull (suspending only if a lock is supplied - the stated precondition), lock "
    "absent or SimLock (FIFO/random hand-off, acquire-suspends, release-suspends), optionally one consumer "
    "cancelled at its c-th suspension, interrupt density; the schedule stream picks the task at every step. "
    "Oracle: per child yields == prefix of the source's delivery log (all of it when exhausted); no "
    "overlapping __anext__ on the source under a lock; weakref to item i dead once every live child yielded "
    "it; every non-cancelled consumer finishes, lock free at quiescence; source closed exactly when no child "
    "is live. Non-trivial: >=2 items delivered and >=2 consumers made progress; distinct = distinct "
    "(scenario, interleaving) by 64-bit hash; schedule_digests_distinct counts distinct (task, token kind) traces."
    " Extensions of rounds 9-12: the tee object itself closed at the end (aclose / async with) with lagging children; closing counts as being inside the source; the source may deliver one object twice in a row; a child may not be told the end before the source reported it."
    " Round 13: children closed through iter(child); locks that also offer the blocking protocol; reads asked for at call time by hand-written __anext__."
)
COMPONENTS = COMPONENTS_AIO
ASSUMPTIONS = [
    "the lock is the SimLock stub on the token loop and the real asyncio.Lock on backend B (a quarter of the runs)",
    "a cancelled consumer closes its own child, or lets go of it: then the child is finished if the cancellation "
    "passed through its __anext__ (the iterator raised) and a lagging live child otherwise; an abandoned child stays live",
    "the delivery log of the instrumented source is the ground truth for 'the source's items'",
]
PROBES = ("waiter_found_item_after_lock", "item_fetched_while_sibling_waits", "cancel_inside_source",
          "cancel_at_lock_wait", "cancel_between_items", "child_closed_early", "child_abandoned",
          "lock_contended", "no_lock", "all_children_exhausted", "cancelled_child_left_unclosed",
          "dropped_children_finalised_by_loop", "tee_object_closed")


class Prog:
    __slots__ = ("take", "then", "pauses")


def gen(ch):
    sc = Prog.__new__(Prog)  # plain namespace
    sc = type("Scn", (), {})()
    cfg = draw_cfg(ch)
    sc.cfg = cfg
    sc.interrupt = ch.draw(4)
    sc.n = ch.between(2, 4)
    sc.lock = ch.chance(3, 4)
    g = Gen(ch, cfg, "")
    nitems = ch.draw(7)
    items = g.items(nitems)
    if nitems >= 2 and ch.chance(1, 8):
        # the source delivers the very same object twice in a row (a stream repeating its last reading)
        k = ch.draw(nitems - 1)
        items[k + 1] = items[k]
    if sc.lock:
        g.all_suspend = not ch.chance(1, 4)
        cfg.max_susp = max(cfg.max_susp, 1)
        plan = g.src(items, ASYNC_FLAVOURS)
        sc.lock_policy = ch.draw(2)
        sc.lock_acq_susp = ch.chance(1, 3)
        sc.lock_rel_susp = ch.chance(1, 3)
    else:
        # without a lock the precondition is a source that never suspends
        cfg.max_susp = 0
        cfg.aclose_susp = False
        plan = g.src(items, ASYNC_FLAVOURS + ("getitem", "sync_iter"))
        sc.lock_policy = sc.lock_acq_susp = sc.lock_rel_susp = 0
    plan.fresh = True
    sc.src = plan
    progs = []
    for _ in range(sc.n):
        p = Prog()
        mode = ch.weighted([5, 2, 1])  # exhaust | close after j | abandon after j
        p.take = None if mode == 0 else ch.draw(nitems + 2)
        p.then = ("exhaust", "close", "abandon")[mode]
        p.pauses = [ch.draw(3) for _ in range(3)]
        progs.append(p)
    sc.progs = progs
    sc.cancel = None
    if ch.chance(1, 3):
        sc.cancel = ch.draw(sc.n)
    # a cancelled consumer either closes its child on the way out or just lets go of it
    sc.cancel_closes = not ch.chance(1, 3)
    # afterwards the tee object itself is closed: 1 by aclose(), 2 by leaving ``async with tee`` (0: not at all)
    sc.close_handle = ch.weighted([3, 1, 1])
    # a lock object may well test false (say, __len__ = number of waiters): it is a lock all the same
    sc.lock_falsy = bool(sc.lock) and ch.chance(1, 4)
    sc.lock_dual = bool(sc.lock) and ch.chance(1, 5)
    # backend B: the real asyncio.Lock and Task.cancel() (only meaningful with a lock)
    sc.backend = pick_backend(ch, 1, 4)
    return sc


class State:
    pass


def check_retention(st):
    if st.has_repeats:
        return  # (an object still to be delivered again is alive because of that: lifetimes say nothing then)
    refs = st.src.refs
    live = [len(st.yields[c]) for c in range(st.n) if not st.done[c]]
    m = min(live) if live else len(refs)
    if m > len(refs):
        m = len(refs)
    if st.sync_source and m == len(refs):
        # a synchronous iterable is adapted by a generator whose loop variable keeps the most
        # recently delivered item until the next pull: one item held by the adapter, not by the tee
        m -= 1
    for i in range(m):
        if refs[i]() is not None:
            if st.retention is None:
                st.retention = (i, list(live), [len(y) for y in st.yields], list(st.done))
            return


async def consumer(ci, child, prog, st, sim):
    try:
        n = 0
        while prog.take is None or n < prog.take:
            try:
                st.in_next[ci] = True
                item = await child.__anext__()
                st.in_next[ci] = False
            except StopAsyncIteration:
                st.finished[ci] = "stop"
                st.done[ci] = True
                check_retention(st)
                break
            st.yields[ci].append(item.uid)
            del item
            n += 1
            check_retention(st)
            for _ in range(prog.pauses[n % 3]):
                await sim.suspend(PAUSE, None, "consumer")
        else:
            if prog.then == "close":
                st.in_next[ci] = True  # a cancellation from here on passes through the child's aclose
                st.closing[ci] = True
                # (sometimes through what iter(child) gives - the way a tool handed the child would close it)
                await (child.__aiter__() if prog.pauses[0] == 2 else child).aclose()
                st.done[ci] = True
                st.finished[ci] = "closed"
                check_retention(st)
            else:
                st.finished[ci] = "abandoned"
    except CANCEL as cancel:
        st.finished[ci] = "cancelled"
        if st.cancel_closes:
            try:
                st.closing[ci] = True
                await child.aclose()
            finally:
                st.done[ci] = True
        elif st.in_next[ci]:
            # the cancellation went through the child's own __anext__ / aclose: that iterator has raised and is finished
            st.done[ci] = True
            st.probes["cancelled_child_left_unclosed"] = 1
        else:
            # cancelled between two items and never closed: a lagging child like an abandoned one
            st.finished[ci] = "cancelled-abandoned"
        del child
        # the traceback of the cancellation keeps the dead child's frame (and its buffer) alive:
        # that is the interpreter's doing, not the tee's
        traceback.clear_frames(cancel.__traceback__)
        check_retention(st)
        raise
    except BaseException as err:
        st.finished[ci] = "error"
        st.errors.append((ci, err))
        st.done[ci] = True


def src_closed_early(src):
    if src.exhausted or src.killed:
        return False
    if src.plan.flavour == "agen":
        return src.agen is not None and src.agen.ag_frame is None
    return src.n_aclose > 0


def execute(st_, ctx):
    out = Outcome()
    ch = st_.scenario
    sc = gen(ch)
    sim = new_sim(st_, interrupts=False, backend=sc.backend)
    set_interrupts(sim, (0, 0, 5, 2)[sc.interrupt])
    world = World(sim)
    src = make_async_source(world, sc.src)
    lock = None
    sync_side_used = []
    if sc.lock:
        lock_type = make_lock(sim, sc.lock_policy, sc.lock_acq_susp, sc.lock_rel_susp)
        if sc.lock_falsy:
            lock_type = type("FalsyLock", (lock_type,), {"__bool__": lambda self: False})
        if sc.lock_dual:
            # the lock also offers the blocking protocol (a thread-level side): for tasks the asynchronous side is the lock
            def _sync_side(self, *exc):
                sync_side_used.append(1)
                return None

            lock_type = type("DualLock", (lock_type,), {"__enter__": _sync_side, "__exit__": _sync_side})
        lock = lock_type()
    handle = lib().tee(src.obj, sc.n, lock=lock) if lock is not None else lib().tee(src.obj, sc.n)
    st = State()
    st.n = sc.n
    st.src = src
    st.sync_source = sc.src.flavour in ("getitem", "sync_iter")
    st.yields = [[] for _ in range(sc.n)]
    st.done = [False] * sc.n
    st.finished = [None] * sc.n
    st.errors = []
    st.retention = None
    st.in_next = [False] * sc.n
    st.closing = [False] * sc.n
    st.has_repeats = len({id(i) for i in sc.src.items}) < len(sc.src.items)
    st.cancel_closes = sc.cancel_closes
    st.probes = out.probes
    tasks = []
    for ci in range(sc.n):
        tasks.append(sim.spawn(consumer(ci, handle[ci], sc.progs[ci], st, sim), "c%d" % ci))
    if sc.cancel is not None:
        c_at = 1 + st_.faults.draw(10)
        sim.cancel_plan[tasks[sc.cancel].id] = c_at
    def closing_watch(sim_):
        # while the source's own aclose is in progress (it suspends), the child whose closing led there has given up its
        # backlog already: a cancellation arriving now must not leave those items behind
        if src.n_aclose > 0 and not src.closed and sc.src.flavour != "agen":
            closing = [ci for ci in range(sc.n) if st.closing[ci] and not st.done[ci]]
            if closing:
                saved = list(st.done)
                for ci in closing:
                    st.done[ci] = True
                check_retention(st)
                st.done = saved
    sim.step_hooks.append(closing_watch)
    if lock is not None:
        def watch(sim_, lock=lock, src=src, seen=[0]):
            # probe only: an item was delivered while a sibling waited for the lock
            if src.delivered != seen[0]:
                seen[0] = src.delivered
                if lock.waiters:
                    out.probes["item_fetched_while_sibling_waits"] = 1
            if lock.waiters:
                out.probes["lock_contended"] = 1
        sim.step_hooks.append(watch)
    run_sim(sim)
    sig_lock = "lock" if sc.lock else "nolock"
    desc = None

    def describe():
        return {"backend": sc.backend, "children": sc.n, "lock": bool(sc.lock),
                "lock_policy": [sc.lock_policy, sc.lock_acq_susp, sc.lock_rel_susp], "lock_tests_false": sc.lock_falsy,
                "cancelled_consumer_closes_child": sc.cancel_closes,
                "source": sc.src.describe(),
                "programs": [{"take": p.take, "then": p.then, "pauses": p.pauses} for p in sc.progs],
                "cancel": {"consumer": sc.cancel, "fired_at": sim.cancel_fired_at} if sc.cancel is not None else None,
                "yields": st.yields, "finished": st.finished,
                "interleaving": [(t >> 2, ("pause", "sleep", "lock_wait", "done")[t & 3]) for t in sim.trace][:200]}

    cancelled_fired = sim.cancel_sent is not None
    if sim.deadlock:
        out.violate("C09.deadlock", (sig_lock,), describe())
    elif not sim.capped:
        delivered = [e[2] for e in sim.log if e[0] == "item"]
        delivered_uids = [sc.src.items[i].uid for i in delivered]
        if len(set(delivered)) != len(delivered):
            out.violate("C09.item_fetched_twice", (sig_lock,), describe())
        for ci in range(sc.n):
            ys = st.yields[ci]
            fin = st.finished[ci]
            if fin is None:
                out.violate("C09.consumer_did_not_finish", (sig_lock,), describe())
                continue
            if fin == "error":
                out.violate("C09.consumer_failed", (sig_lock, type(st.errors[0][1]).__name__),
                            dict(describe(), error=repr(st.errors[0][1])))
                continue
            if ys != delivered_uids[:len(ys)]:
                kind = "reordered_or_duplicated" if sorted(map(repr, ys)) != sorted(map(repr, delivered_uids[:len(ys)])) or \
                    len(set(map(repr, ys))) != len(ys) else "reordered"
                if set(map(repr, ys)) <= set(map(repr, delivered_uids)) and len(set(map(repr, ys))) == len(ys):
                    kind = "lost_or_reordered"
                out.violate("C09.child_sequence_differs", (sig_lock, kind),
                            dict(describe(), child=ci, delivered=delivered_uids))
            elif fin == "stop" and len(ys) != len(delivered_uids):
                out.violate("C09.lost_item", (sig_lock,), dict(describe(), child=ci, delivered=delivered_uids))
            elif fin == "stop" and not src.exhausted and not src.killed and not src.failed:
                # a child was told "the end" although the source never reported its end (a source that survives a
                # cancelled fetch - class-based ones do - goes on serving the other children)
                out.violate("C09.child_ended_before_the_source", (sig_lock,), dict(describe(), child=ci, delivered=delivered_uids))
        # the tee fetches an item only when some child needs it: at quiescence the source has delivered exactly as many
        # items as the most advanced child yielded (one more at most if a consumer was cancelled between fetching and
        # yielding) - a child that waited at the lock finds the item in its buffer instead of fetching the next one
        most = max((len(y) for y in st.yields), default=0)
        if len(delivered) > most + (1 if cancelled_fired else 0):
            out.violate("C09.source_read_ahead_of_every_child", (sig_lock,),
                        dict(describe(), delivered=len(delivered), most_advanced_child=most))
        if sc.lock and src.overlaps:
            out.violate("C09.overlap_under_lock", (sig_lock,), describe())
        if st.retention is not None:
            out.violate("C09.item_retained", (sig_lock,), dict(describe(), retention=repr(st.retention)))
        if lock is not None and (lock.owner is not None or lock.waiters):
            out.violate("C09.lock_not_free_at_quiescence", (sig_lock,), describe())
        if sync_side_used:
            out.violate("C09.lock_misused", (sig_lock, "blocking side of the lock used"), describe())
        if lock is not None and lock.misuse:
            out.violate("C09.lock_misused", (sig_lock, lock.misuse[0][0]), describe())
        live = [c for c in range(sc.n) if not st.done[c]]
        if live:
            if src_closed_early(src):
                out.violate("C09.source_closed_while_child_live", (sig_lock,), describe())
        elif src.must_release and not src.released:
            out.violate("C09.source_not_closed_after_last_child", (sig_lock,), describe())
        for t in tasks:
            if t.error is not None and not (t.cancelled_with is not None and t.error is t.cancelled_with):
                out.violate("C09.task_failed", (sig_lock, type(t.error).__name__), dict(describe(), error=repr(t.error)))
    # ---- the tee object itself is closed (or the block of ``async with tee`` left): every child is closed by that,
    # lagging or abandoned ones too, and none of them keeps its backlog alive afterwards
    if sc.close_handle and not (sim.capped or sim.deadlock):
        async def close_all():
            if sc.close_handle == 2:
                async with handle:
                    pass
            else:
                await handle.aclose()

        closer = sim.spawn(close_all(), "close-handle")
        run_sim(sim)
        if not (sim.capped or sim.deadlock):
            if closer.error is not None:
                out.violate("C09.closing_the_tee_failed", (sig_lock, type(closer.error).__name__), dict(describe(), error=repr(closer.error)))
            st.done = [True] * sc.n
            check_retention(st)
            if st.retention is not None and not out.violations:
                out.violate("C09.item_retained", (sig_lock, "after the tee was closed"), dict(describe(), retention=repr(st.retention)))
            if src.must_release and not src.released and not out.violations:
                out.violate("C09.source_not_closed_after_last_child", (sig_lock, "after the tee was closed"), describe())
            out.probes["tee_object_closed"] = 1
    # ---- at last everything is simply dropped (handle, children, suspended generators): whatever cleans up then
    # still has to go through the loop - finalisers run as tasks of the simulator, and every token a user awaitable
    # yields must arrive there (checked by the loop protocol in finish_outcome)
    if sc.backend != "aio" and not (sim.capped or sim.deadlock):
        handle = None
        tasks_done = [t.done for t in tasks]
        del st.src
        run_sim(sim)
        if getattr(sim, "n_finalizers", 0):
            out.probes["dropped_children_finalised_by_loop"] = 1
    # probes / reach
    if lock is not None:
        # a waiter acquired the lock and released it without pulling: it found the item in its buffer
        holder = None
        pulled = False
        for e in sim.log:
            if e[0] == "lock_acq":
                holder, pulled = e[2], False
            elif e[0] == "pull":
                pulled = True
            elif e[0] == "lock_rel":
                if holder is not None and not pulled:
                    out.probes["waiter_found_item_after_lock"] = 1
                holder = None
    else:
        out.probes["no_lock"] = 1
    if cancelled_fired and sim.cancel_fired_at:
        _, kind, party = sim.cancel_fired_at
        out.fault_free = False
        out.faults["cancel"] = 1
        if party == sc.src.name:
            out.probes["cancel_inside_source"] = 1
        elif kind == LOCKWAIT:
            out.probes["cancel_at_lock_wait"] = 1
        elif party == "consumer":
            out.probes["cancel_between_items"] = 1
    if "closed" in st.finished:
        out.probes["child_closed_early"] = 1
        out.faults["child_closed_early"] = 1
        out.fault_free = False
    if "abandoned" in st.finished:
        out.probes["child_abandoned"] = 1
        out.faults["child_abandoned"] = 1
    if all(f == "stop" for f in st.finished):
        out.probes["all_children_exhausted"] = 1
    out.nontrivial = src.delivered >= 2 and sum(1 for y in st.yields if y) >= 2
    out.shape = (sc.backend, sc.close_handle, sc.n, bool(sc.lock), sc.lock_falsy, sc.cancel_closes if sc.cancel is not None else None, sc.src.flavour, len(sc.src.items), sc.src.suspend,
                 tuple((p.take, p.then, tuple(p.pauses)) for p in sc.progs), sc.cancel,
                 hash(tuple(sim.trace)))
    if ctx.want_sample:
        out.sample = describe()
    if ctx.want_log:
        out.log = [sim.log, sim.trace, st.yields, st.finished]
    return finish_outcome(out, st_, sim, ctx)


def explore(st, ctx):
    return [execute(st, ctx)]
