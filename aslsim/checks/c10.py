"""
C10 - lru_cache equals functools.lru_cache over every sequential call history.

One simulated task runs an operation history against an asyncstdlib cache around a suspending
coroutine function; the same history is applied to the real ``functools.lru_cache`` (C
implementation) around the equivalent plain function, and to a tiny LRU model that is needed for
``cache_discard`` (no stdlib twin) and is itself cross-checked against functools until the first
discard.
"""

import functools
from collections import OrderedDict

from ..actors import InjectedFault
from ..loop import PAUSE
from ..runner import Outcome
from ..tools import lib
from .common import COMPONENTS_BASE, run_sim, new_sim, finish_outcome

PID = "C10"
LEVEL = "exploration"
BUDGET = {"quick": 150000, "thorough": 3000000}
RULE = (
    "each run draws maxsize in {None,-1,0,1..5,default}, typed, decorator form (bare, (), maxsize=, "
    "functools-style positional, direct call lru_cache(f, typed), cache), binding (function, method on two kept "
    "instances and on temporaries only their bound accessor refers to, classmethod, "
    "staticmethod) and a history of <=40 ops over {call(pattern), cache_clear, cache_info, cache_parameters, "
    "cache_discard(pattern)}; patterns mix 1/1.0/True/'1'/(1,)/None/2/2.0, positional vs keyword and keyword "
    "order, positional tuples that look like keyword items; results are fresh tuples or None / falsy values; "
    "method holders may be falsy objects; failing calls are injected; the wrapped coroutine suspends 0..2 times. After every op: result, "
    "invocation log, cache_info and cache_parameters equal those of functools.lru_cache (until the first "
    "discard) and of the LRU model (always). Non-trivial: >=1 hit and (>=1 eviction or discard or typed or "
    "failing call); distinct = distinct (configuration, history) by 64-bit hash."
    " Extensions of rounds 9-12: instances that all compare equal; clause: the function is invoked with the instance the call was made through."
)
COMPONENTS = dict(COMPONENTS_BASE, models=["15-line OrderedDict LRU keyed by functools._make_key (for cache_discard), "
                                           "cross-checked against functools.lru_cache in the same run"])
ASSUMPTIONS = [
    "reference = functools.lru_cache of CPython 3.12.1 (C implementation) for everything except cache_discard",
    "cache_discard is judged by the LRU model, which is compared with functools op by op until the first discard",
    "argument values are hashable",
]
PROBES = ("eviction", "typed_distinguishes", "discard_hit", "discard_miss",
          "failing_call", "method_binding", "clear_midway", "keyword_order")

NAN = float("nan")  # one object, used again and again: equal to nothing, found again by identity (as in functools)
VALUES = (1, 1.0, True, "1", (1,), None, 2, 2.0, "2", 3, -1, -2, NAN)  # hash(-1) == hash(-2) in CPython: unequal all the same


class Model:
    def __init__(self, maxsize, typed):
        self.maxsize = maxsize
        self.typed = typed
        self.od = OrderedDict()
        self.hits = self.misses = 0

    def call(self, args, kwargs, invoke):
        if self.maxsize == 0:
            self.misses += 1
            return invoke()
        key = functools._make_key(args, kwargs, self.typed)
        if key in self.od:
            self.hits += 1
            self.od.move_to_end(key)
            return self.od[key]
        self.misses += 1
        value = invoke()
        if self.maxsize is not None and len(self.od) >= self.maxsize:
            self.od.popitem(last=False)
        self.od[key] = value
        return value

    def discard(self, args, kwargs):
        return self.od.pop(functools._make_key(args, kwargs, self.typed), None) is not None

    def clear(self):
        self.od.clear()
        self.hits = self.misses = 0

    def info(self):
        return (self.hits, self.misses, self.maxsize, len(self.od))


def gen(ch):
    sc = type("Scn", (), {})()
    sc.maxsize_sel = ch.draw(10)  # 0:default 1:None 2:-1 3:0 4..8:1..5 9:2
    sc.maxsize = (128, None, -1, 0, 1, 2, 3, 4, 5, 2)[sc.maxsize_sel]
    sc.typed = ch.chance(1, 3)
    # 0 bare (only default maxsize) 1 call form 2 keyword form 3 cache (only None) 4 direct call with typed: lru_cache(f, typed)
    sc.form = ch.draw(5)
    sc.binding = ch.weighted([5, 2, 1, 1])  # function, method, classmethod, staticmethod
    sc.susp = [ch.draw(3) for _ in range(3)]
    nvals = ch.between(2, 5)
    pool = [VALUES[ch.draw(len(VALUES))] for _ in range(nvals)]
    npat = ch.between(1, 5)
    pats = []
    for _ in range(npat):
        shape = ch.draw(11)
        a, b = pool[ch.draw(nvals)], pool[ch.draw(nvals)]
        if shape == 0:
            pats.append(((a,), ()))
        elif shape == 1:
            pats.append(((a, b), ()))
        elif shape == 2:
            pats.append(((), (("a", a),)))
        elif shape == 3:
            pats.append(((), (("a", a), ("b", b))))
        elif shape == 4:
            pats.append(((), (("b", b), ("a", a))))
        elif shape == 5:
            pats.append(((a,), (("b", b),)))
        elif shape == 6:
            # a positional argument that looks like a keyword item
            pats.append(((("a", a),), ()))
        elif shape == 7:
            pats.append(((("a", a), ("b", b)), ()))
        elif shape == 10:
            pats.append(((a, ("b", b)), ()))  # a positional tuple next to a positional: looks like (a, b=b)
        elif shape == 8:
            pats.append(((a, b, a), ()))  # one positional too many for a function with a real signature
        else:
            pats.append(((a,), (("c", b),)))  # a keyword a function with a real signature does not know
    sc.pats = pats
    # the wrapped function takes anything (*args, **kwargs) or has a real signature (x=None, y=None, *, a=None, b=None):
    # then ill-fitting patterns fail when the function is *called*, before there is anything to await
    sc.strict = ch.chance(1, 3)
    sc.result_mode = ch.weighted([4, 1, 2])  # results: always a fresh tuple, always None, None / falsy every other time
    sc.falsy_inst = ch.chance(1, 3)
    sc.equal_inst = ch.chance(1, 5)
    ops = []
    discards = ch.chance(1, 3)  # most histories stay comparable with functools to the end
    for _ in range(ch.between(1, 40)):
        kind = ch.weighted([12, 1, 2, 1, 2 if discards else 0])  # call clear info params discard
        pat = ch.draw(npat)
        # two kept instances; 2 = a temporary instance nobody else refers to; 3 = a shallow copy of the first (methods only)
        inst = ch.weighted([8, 8, 2, 3])
        fail = ch.chance(1, 8)
        ops.append((kind, pat, inst, fail))
    sc.ops = ops
    return sc


def effective_maxsize(sc):
    if sc.form in (0, 4):
        return 128
    if sc.form == 3:
        return None
    return sc.maxsize


def decorate(sc, L, func, ref):
    """Apply the drawn decorator form; ``ref`` selects functools"""
    mod = functools if ref else L
    if sc.form == 0:
        return mod.lru_cache(func)
    if sc.form == 3:
        return mod.cache(func)
    if sc.form == 4:
        return mod.lru_cache(func, sc.typed)
    if sc.form == 1:
        return mod.lru_cache(sc.maxsize, sc.typed)(func)
    return mod.lru_cache(maxsize=sc.maxsize, typed=sc.typed)(func)


class Side:
    """One implementation under the history: the wrapped function and its invocation log"""

    def __init__(self):
        self.serial = 0
        self.invocations = []
        self.fail_next = False
        self.result_mode = 0

    def body(self, args, kwargs, label=None):
        self.serial += 1
        self.invocations.append((self.serial, repr(args), repr(sorted(kwargs.items())), label))
        if self.fail_next:
            self.fail_next = False
            raise InjectedFault("call%d" % self.serial)
        if self.result_mode == 1 or (self.result_mode == 2 and self.serial % 2):
            return (None, 0, "")[self.serial % 3] if self.result_mode == 2 else None
        return ("v", self.serial)


def build(sc, sim, ref):
    side = Side()
    side.result_mode = sc.result_mode
    L = lib()
    typed = sc.typed if sc.form in (1, 2, 4) else False
    if ref:
        def func(*args, **kwargs):
            return side.body(args, kwargs)

        def func_strict(x=None, y=None, *, a=None, b=None):
            return side.body((x, y), {"a": a, "b": b})
    else:
        susp = sc.susp

        async def func(*args, **kwargs):
            for _ in range(susp[side.serial % 3]):
                await sim.suspend(PAUSE, None, "wrapped")
            return side.body(args, kwargs)

        async def func_strict(x=None, y=None, *, a=None, b=None):
            for _ in range(susp[side.serial % 3]):
                await sim.suspend(PAUSE, None, "wrapped")
            return side.body((x, y), {"a": a, "b": b})

    if sc.strict:
        func = func_strict
    if sc.binding == 0:
        wrapped = decorate(sc, L, func, ref)
        side.targets = [wrapped, wrapped]
        side.cache = wrapped
        side.prefix = [(), ()]
    else:
        if ref:
            def meth(self_, *args, **kwargs):
                return side.body(args, kwargs, getattr(self_, "label", None) if sc.binding == 1 else None)

            def meth_strict(self_, x=None, y=None, *, a=None, b=None):
                return side.body((x, y), {"a": a, "b": b}, getattr(self_, "label", None) if sc.binding == 1 else None)
        else:
            susp = sc.susp

            async def meth(self_, *args, **kwargs):
                for _ in range(susp[side.serial % 3]):
                    await sim.suspend(PAUSE, None, "wrapped")
                return side.body(args, kwargs, getattr(self_, "label", "<no instance>") if sc.binding == 1 else None)

            async def meth_strict(self_, x=None, y=None, *, a=None, b=None):
                for _ in range(susp[side.serial % 3]):
                    await sim.suspend(PAUSE, None, "wrapped")
                return side.body((x, y), {"a": a, "b": b}, getattr(self_, "label", "<no instance>") if sc.binding == 1 else None)
        if sc.strict:
            meth = meth_strict
        # the method is published under its own name, as a def in a class body would be
        meth.__name__ = meth.__qualname__ = "m"
        if sc.binding == 1:
            ns = {"m": decorate(sc, L, meth, ref)}
            if sc.falsy_inst:
                ns["__len__"] = lambda self_: 0  # an instance whose truth value is False is an instance all the same
            if getattr(sc, "equal_inst", False):
                # all instances compare (and hash) equal: they share cache entries, as with functools - yet a call that
                # does reach the function reaches it with the instance it was made through
                ns["__eq__"] = lambda self_, other: type(other) is type(self_)
                ns["__hash__"] = lambda self_: 7
            cls = type("Holder", (), ns)
            x, y = cls(), cls()
            x.label, y.label = "inst0", "inst1"
            side.n_temp = 0

            def temp():
                # the bound accessor is all that refers to this instance
                side.n_temp += 1
                t = cls()
                t.label = "temp%d" % side.n_temp
                return t.m

            side.temp = temp
            side.copied = []

            def the_copy():
                # a shallow copy of the first instance, made when first needed (after that one has been in use)
                if not side.copied:
                    import copy

                    c = copy.copy(x)
                    c.label = "copy"
                    side.copied.append(c)
                return side.copied[0].m

            side.the_copy = the_copy
            side.targets = [x.m, y.m]
            side.prefix = [(x,), (y,)]
            side.cache = cls.m
            side.keep = (x, y)
        elif sc.binding == 2:
            cls = type("Holder", (), {"m": classmethod(decorate(sc, L, meth, ref))})
            sub = type("Sub", (cls,), {})
            side.targets = [cls.m, sub.m]
            side.prefix = [(cls,), (sub,)]
            side.cache = cls.__dict__["m"].__func__
        else:
            cls = type("Holder", (), {"m": staticmethod(decorate(sc, L, func, ref))})
            side.targets = [cls.m, cls().m]
            side.prefix = [(), ()]
            side.cache = cls.__dict__["m"].__func__
    side.typed = typed
    return side


def info_tuple(info):
    return tuple(info)


async def history(sc, side, trace):
    for kind, pat, inst, fail in sc.ops:
        args, kw = sc.pats[pat]
        kwargs = dict(kw)
        if sc.binding == 1 and inst >= 2:
            target = side.temp() if inst == 2 else side.the_copy()
        else:
            target = side.targets[inst % 2]
        if kind == 0:
            side.fail_next = fail
            try:
                res = ("ok", await target(*args, **kwargs))
            except InjectedFault as err:
                res = ("fault", err.tag)
            except TypeError:
                res = ("does not fit the signature",)
            side.fail_next = False
        elif kind == 1:
            target.cache_clear()
            res = ("cleared",)
        elif kind == 2:
            res = ("info", info_tuple(target.cache_info()))
        elif kind == 3:
            res = ("params", tuple(sorted(target.cache_parameters().items(), key=repr)))
        else:
            target.cache_discard(*args, **kwargs)
            res = ("discarded",)
        trace.append((res, info_tuple(side.cache.cache_info()), len(side.invocations)))


def ref_history(sc, side, model, mside):
    """functools (until the first discard) and the model, op by op"""
    trace, mtrace = [], []
    ref_valid = True
    msize = effective_maxsize(sc)
    msize = 0 if (msize is not None and msize < 0) else msize
    for kind, pat, inst, fail in sc.ops:
        args, kw = sc.pats[pat]
        kwargs = dict(kw)
        label = None
        if inst == 2 and sc.binding == 1:
            target = side.temp()
            mside.n_temp = getattr(mside, "n_temp", 0) + 1
            margs = (("temp", mside.n_temp),) + args
            label = "temp%d" % mside.n_temp
        elif inst == 3 and sc.binding == 1:
            target = side.the_copy()
            margs = (("copy",),) + args
            label = "copy"
        else:
            target = side.targets[inst % 2]
            margs = side_prefix_model(mside, inst % 2) + args
            if sc.binding == 1:
                label = "inst%d" % (inst % 2)
        if sc.binding == 1 and getattr(sc, "equal_inst", False):
            margs = (("any instance: they all compare equal",),) + args
        if kind == 0:
            if ref_valid:
                side.fail_next = fail
                try:
                    res = ("ok", target(*args, **kwargs))
                except InjectedFault as err:
                    res = ("fault", err.tag)
                except TypeError:
                    res = ("does not fit the signature",)
                side.fail_next = False
            mside.fail_next = fail

            def invoke():
                if not sc.strict:
                    return mside.body(args, kwargs, label)
                if len(args) > 2 or set(kwargs) - {"a", "b"}:
                    raise TypeError("does not fit")
                xy = (tuple(args) + (None, None))[:2]
                return mside.body(xy, {"a": kwargs.get("a"), "b": kwargs.get("b")}, label)

            try:
                mres = ("ok", model.call(margs, kwargs, invoke))
            except InjectedFault as err:
                mres = ("fault", err.tag)
            except TypeError:
                mres = ("does not fit the signature",)
            mside.fail_next = False
        elif kind == 1:
            if ref_valid:
                target.cache_clear()
            model.clear()
            res = mres = ("cleared",)
        elif kind == 2:
            if ref_valid:
                res = ("info", info_tuple(target.cache_info()))
            mres = ("info", model.info())
        elif kind == 3:
            if ref_valid:
                res = ("params", tuple(sorted(target.cache_parameters().items(), key=repr)))
            mres = ("params", tuple(sorted({"maxsize": msize, "typed": side.typed}.items(), key=repr)))
        else:
            ref_valid = False
            hit = model.discard(margs, kwargs)
            mside.discards.append(hit)
            res = mres = ("discarded",)
        if ref_valid:
            trace.append((res, info_tuple(side.cache.cache_info()), len(side.invocations)))
        mtrace.append((mres, model.info(), len(mside.invocations)))
    return trace, mtrace


def side_prefix_model(mside, inst):
    return mside.prefix[inst]


def execute(st, ctx):
    out = Outcome()
    sc = gen(st.scenario)
    sim = new_sim(st)
    aside = build(sc, sim, ref=False)
    atrace = []
    sim.spawn(history(sc, aside, atrace))
    run_sim(sim)
    rside = build(sc, None, ref=True)
    msize = effective_maxsize(sc)
    msize = 0 if (msize is not None and msize < 0) else msize
    model = Model(msize, aside.typed)
    mside = Side()
    mside.result_mode = sc.result_mode
    mside.prefix = [tuple("inst%d" % i for _ in p) for i, p in enumerate(aside.prefix)]
    if sc.binding == 2:
        mside.prefix = [("cls",), ("sub",)]
    mside.discards = []
    rtrace, mtrace = ref_history(sc, rside, model, mside)
    sig = ("maxsize=%r" % (msize,), "typed" if aside.typed else "untyped", ("function", "method", "classmethod", "staticmethod")[sc.binding])

    def describe(i=None):
        return {"maxsize": sc.maxsize, "typed": sc.typed, "form": sc.form, "binding": sc.binding,
                "result_mode": sc.result_mode, "falsy_instances": sc.falsy_inst, "instances_compare_equal": sc.equal_inst, "wrapped_function_has_a_real_signature": sc.strict,
                "effective": [msize, aside.typed],
                "patterns": [repr(p) for p in sc.pats],
                "ops": [(("call", "clear", "info", "params", "discard")[k], p, inst, f) for k, p, inst, f in sc.ops][: (i + 1) if i is not None else None],
                "async_trace": [repr(t) for t in atrace][-6:] if i is None else repr(atrace[i] if i < len(atrace) else None),
                "functools": repr(rtrace[i]) if i is not None and i < len(rtrace) else None,
                "model": repr(mtrace[i]) if i is not None and i < len(mtrace) else None}

    if sim.deadlock or (not sim.capped and len(atrace) != len(sc.ops)):
        out.violate("C10.history_did_not_finish", sig[2:], describe())
    elif sim.capped:
        out.violate("C10.history_does_not_terminate", sig[2:], dict(describe(), steps=sim.seq))
    elif not sim.capped:
        # model vs functools: a mismatch is a harness problem, never blamed on the library
        for i, (r, m) in enumerate(zip(rtrace, mtrace)):
            if r != m:
                raise RuntimeError("LRU model disagrees with functools at op %d: %r vs %r (%r)" % (i, r, m, describe(i)))
        for i, a in enumerate(atrace):
            expect = rtrace[i] if i < len(rtrace) else mtrace[i]
            if a != expect:
                what = "result" if a[0] != expect[0] else ("cache_info" if a[1] != expect[1] else "invocations")
                opname = ("call", "clear", "info", "params", "discard")[sc.ops[i][0]]
                out.violate("C10.differs_from_functools" if i < len(rtrace) else "C10.differs_from_model_after_discard",
                            (opname, what) + sig[2:], describe(i))
                break
        else:
            if sc.binding == 1:
                # the same calls reach the function - with the instance each was made through
                got = [inv[3] for inv in aside.invocations]
                want = [inv[3] for inv in mside.invocations]
                if got != want:
                    out.violate("C10.method_invoked_with_another_instance", sig[2:],
                                dict(describe(), invoked_with=got, expected=want))
    # probes
    hits = atrace[-1][1][0] if atrace else 0
    evicted = False
    if msize not in (None, 0):
        seen = 0
        for t in mtrace:
            if t[1][3] == msize and seen == msize and t[0][0] == "ok":
                pass
            seen = t[1][3]
        evicted = any(mtrace[i][2] > mtrace[i - 1][2] and mtrace[i][1][3] == msize and mtrace[i - 1][1][3] == msize
                      for i in range(1, len(mtrace)))
    if evicted:
        out.probes["eviction"] = 1
    if aside.typed:
        out.probes["typed_distinguishes"] = 1
    if any(mside.discards):
        out.probes["discard_hit"] = 1
    if mside.discards and not all(mside.discards):
        out.probes["discard_miss"] = 1
    if any(t[0][0] == "fault" for t in mtrace):
        out.probes["failing_call"] = 1
        out.faults["wrapped_call_raises"] = sum(1 for t in mtrace if t[0][0] == "fault")
        out.fault_free = False
    if sc.binding == 1:
        out.probes["method_binding"] = 1
    if any(k == 1 for k, _, _, _ in sc.ops[1:-1]):
        out.probes["clear_midway"] = 1
    if any(len(kw) == 2 for _, kw in sc.pats):
        out.probes["keyword_order"] = 1
    out.nontrivial = hits >= 1 and (evicted or bool(mside.discards) or aside.typed or "failing_call" in out.probes)
    out.shape = (sc.maxsize_sel, sc.typed, sc.form, sc.binding, sc.result_mode, sc.falsy_inst, sc.equal_inst, sc.strict, tuple(repr(p) for p in sc.pats), tuple(sc.ops))
    if ctx.want_sample:
        out.sample = describe()
    if ctx.want_log:
        out.log = [atrace, sim.trace]
    return finish_outcome(out, st, sim, ctx)


def explore(st, ctx):
    return [execute(st, ctx)]
