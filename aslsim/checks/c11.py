"""
C11 - lru_cache stays correct under overlapping calls and cancellation.

2..4 tasks call one cached coroutine function that suspends; the scheduler interleaves them at
every suspension; some task clears / discards in flight; one wrapped call may fail; one task may
be cancelled at its c-th suspension.  Invariants are checked after *every* scheduler step and at
quiescence; then the cache is cleared and must follow the sequential LRU model (C10).
"""

from ..actors import InjectedFault
from ..loop import PAUSE, CANCEL
from ..runner import Outcome
from ..tools import lib
from .common import set_interrupts, COMPONENTS_BASE, COMPONENTS_AIO, run_sim, new_sim, finish_outcome, pick_backend

PID = "C11"
LEVEL = "exploration"
BUDGET = {"quick": 250000, "thorough": 5000000}
RULE = (
    "each run draws maxsize in {None,0,1,2,3}, 2..4 tasks with 1..3 ops each over {call key, cache_clear, "
    "cache_discard key, cache_info} on 1..3 keys, a wrapped coroutine suspending 1..2 times per invocation, "
    "optionally one failing invocation and one task cancelled at its c-th suspension; every pick is the "
    "scheduler's. Oracle: currsize<=maxsize after every step, and currsize never shrinks from one step to the next unless a cache_clear / cache_discard was issued (calls only ever add entries, evicting at most what the new entry needs); every returned value comes from a successful "
    "invocation for an equal key that completed earlier; at quiescence hits+misses == calls started since the "
    "last clear and misses == invocations started since then; nothing cached from failed/cancelled calls; "
    "afterwards a sequential continuation of calls / discards / clears from the contents left behind must be explained "
    "by the C10 LRU model started from some arrangement of successfully computed keys of the observed currsize. Non-trivial: >=2 invocations "
    "overlapped in time; distinct = distinct (scenario, interleaving) by 64-bit hash."
    " Extensions of rounds 9-12: a pattern set with one argument given by keyword under two names and positionally; step invariant: currsize never shrinks without a clear / discard."
)
COMPONENTS = dict(COMPONENTS_AIO, models=["OrderedDict LRU model of C10 for the sequential continuation"])
ASSUMPTIONS = [
    "the wrapped coroutine function itself supports overlapping calls (stated precondition of lru_cache)",
    "counters are compared at quiescence only; while calls are in flight only currsize<=maxsize and value provenance are judged",
]
PROBES = ("same_key_overlap", "eviction_while_in_flight", "clear_in_flight", "discard_in_flight",
          "cancel_in_wrapped_call", "failed_call", "hit_served", "full_cache_overlapping_misses")


def _arrangements(keys, size):
    """All orders (oldest first) of all ``size``-subsets of ``keys``"""
    from itertools import permutations
    return permutations(keys, size) if size <= len(keys) else ()


def gen(ch):
    sc = type("Scn", (), {})()
    sc.maxsize = (None, 1, 2, 1, 2, 3, 0)[ch.draw(7)]
    sc.ntasks = ch.between(2, 4)
    sc.nkeys = ch.between(1, 3)
    sc.susp = [ch.between(1, 2) for _ in range(4)]
    sc.interrupt = ch.draw(4)
    progs = []
    for _ in range(sc.ntasks):
        ops = []
        for _ in range(ch.between(1, 3)):
            kind = ch.weighted([10, 1, 1, 1])  # call clear discard info
            ops.append((kind, ch.draw(sc.nkeys), ch.draw(2)))
        progs.append(ops)
    sc.progs = progs
    sc.fail_serial = ch.draw(8) if ch.chance(1, 4) else None  # the n-th invocation fails
    sc.cancel = ch.draw(sc.ntasks) if ch.chance(1, 3) else None
    # sequential continuation from the contents left at quiescence: (kind, key); key nkeys is a fresh one
    sc.post = [(ch.weighted([8, 2, 1, 1]), ch.draw(sc.nkeys + 1)) for _ in range(ch.between(2, 8))]
    sc.backend = pick_backend(ch, 1, 5)
    # argument patterns: one small int (the cache's fast path), or pairs whose key tuples collide in hash
    # (hash(-1) == hash(-2), hash(0.5) == hash(2**60)) and therefore have to be told apart by equality
    sc.args = ([(0,), (1,), (2,), (3,)], [(-1, 0), (-2, 0), (0.5, 0), (2 ** 60, 0)],
               [(1,), (1, ("mode", 2)), (2,), (3,)], [(), (), (7,), (8,)])[ch.weighted([3, 1, 1, 1])]
    # with the third set, pattern 0 is called as f(1, mode=2): a keyword item next to a positional tuple that looks like it
    sc.kwargs = [{"mode": 2}, None, None, None] if sc.args[1] == (1, ("mode", 2)) else [None] * 4
    if sc.args[0] == ():
        # the fourth set: one argument only, given by keyword under two names and positionally - three patterns, one value
        sc.kwargs = [{"base": 7}, {"scale": 7}, None, None]
    return sc


def execute(st, ctx):
    out = Outcome()
    ch = st.scenario
    sc = gen(ch)
    sim = new_sim(st, interrupts=False, backend=sc.backend)
    set_interrupts(sim, (0, 0, 5, 2)[sc.interrupt])
    L = lib()
    invs = []  # [serial, key, start_seq, end_seq|None, status]
    in_flight = {}
    calls = []  # (task, key, start_seq, end_seq, outcome, value)
    marks = {"last_clear_tick": -1, "tick": 0}

    def tick():
        marks["tick"] += 1
        return marks["tick"]

    async def wrapped(*args, **kw):
        key = sc.args.index(args) if not kw else sc.kwargs.index(kw)
        serial = len(invs)
        rec = [serial, key, sim.seq, None, "running", tick()]
        invs.append(rec)
        if in_flight.get(key):
            out.probes["same_key_overlap"] = 1
        in_flight[key] = in_flight.get(key, 0) + 1
        if sum(in_flight.values()) >= 2 and sc.maxsize and cached.cache_info().currsize >= sc.maxsize:
            out.probes["full_cache_overlapping_misses"] = 1
        try:
            for _ in range(sc.susp[serial % 4]):
                await sim.suspend(PAUSE, None, "wrapped")
            if sc.fail_serial == serial:
                rec[4] = "failed"
                raise InjectedFault("inv%d" % serial)
            rec[3] = sim.seq
            rec[4] = "ok"
            rec.append(tick())  # [6]: when the successful invocation ended
            return ("v", key, serial)

        except CANCEL:
            rec[4] = "cancelled"
            raise
        finally:
            in_flight[key] -= 1

    if sc.maxsize is None and ch.chance(1, 2):
        cached = L.cache(wrapped)
    else:
        cached = L.lru_cache(maxsize=sc.maxsize)(wrapped)

    async def worker(ti, ops):
        for kind, key, pause in ops:
            if kind == 0:
                rec = [ti, key, sim.seq, None, "running", None, tick()]
                calls.append(rec)
                try:
                    rec[5] = await cached(*sc.args[key], **(sc.kwargs[key] or {}))
                    rec[4] = "ok"
                except InjectedFault:
                    rec[4] = "failed"
                except CANCEL:
                    rec[4] = "cancelled"
                    rec[3] = sim.seq
                    raise
                rec[3] = sim.seq
            elif kind == 1:
                if any(in_flight.values()):
                    out.probes["clear_in_flight"] = 1
                cached.cache_clear()
                marks["removals"] = marks.get("removals", 0) + 1
                marks["last_clear_tick"] = tick()
            elif kind == 2:
                if any(in_flight.values()):
                    out.probes["discard_in_flight"] = 1
                cached.cache_discard(*sc.args[key], **(sc.kwargs[key] or {}))
                marks["removals"] = marks.get("removals", 0) + 1
                marks.setdefault("discards", {})[key] = tick()
            else:
                cached.cache_info()
            for _ in range(pause):
                await sim.suspend(PAUSE, None, "worker")

    tasks = [sim.spawn(worker(i, ops), "w%d" % i) for i, ops in enumerate(sc.progs)]
    if sc.cancel is not None:
        sim.cancel_plan[tasks[sc.cancel].id] = 1 + st.faults.draw(6)
    over = []
    lost = []
    msize = sc.maxsize
    seen = {"size": 0, "removals": 0}

    def hook(sim_):
        cur = cached.cache_info().currsize
        # calls only ever add entries (evicting at most what a new entry needs): the cache shrinks by clear / discard alone
        if cur < seen["size"] and marks.get("removals", 0) == seen["removals"] and not lost:
            lost.append((sim_.seq, seen["size"], cur))
        seen["size"], seen["removals"] = cur, marks.get("removals", 0)
        if msize is not None:
            if cur > msize and not over:
                over.append((sim_.seq, cur))
            if cur == msize and sum(in_flight.values()) >= 1 and msize:
                out.probes["eviction_while_in_flight"] = 1
    sim.step_hooks.append(hook)
    run_sim(sim)
    sig = ("maxsize=%r" % (sc.maxsize,),)

    def describe():
        return {"backend": sc.backend, "maxsize": sc.maxsize, "keys": sc.nkeys, "argument_patterns": repr(sc.args[:sc.nkeys + 1]), "suspensions": sc.susp, "fail_invocation": sc.fail_serial,
                "programs": [[(("call", "clear", "discard", "info")[k], key, p) for k, key, p in ops] for ops in sc.progs],
                "cancel": {"task": sc.cancel, "fired_at": sim.cancel_fired_at} if sc.cancel is not None else None,
                "invocations": [list(r) for r in invs], "calls": [list(c) for c in calls],
                "info": tuple(cached.cache_info()),
                "interleaving": [(t >> 2, ("pause", "sleep", "lock_wait", "done")[t & 3]) for t in sim.trace][:120]}

    if sim.deadlock:
        out.violate("C11.deadlock", sig, describe())
    elif sim.capped:
        out.violate("C11.calls_do_not_terminate", sig, dict(describe(), steps=sim.seq))
    elif not sim.capped:
        if over:
            out.violate("C11.currsize_exceeds_maxsize", sig, dict(describe(), at=over[0]))
        if lost:
            out.violate("C11.entry_lost_without_clear_or_discard", sig,
                        dict(describe(), at_step=lost[0][0], currsize_before=lost[0][1], currsize_after=lost[0][2]))
        for t in tasks:
            if t.error is not None and t.error is not t.cancelled_with:
                out.violate("C11.task_failed", sig + (type(t.error).__name__,), dict(describe(), error=repr(t.error)))
        ok_values = {}
        for serial, key, s0, s1, status, _t in [r[:6] for r in invs]:
            if status == "ok":
                ok_values[("v", key, serial)] = s1
        for ti, key, c0, c1, status, value, _t in calls:
            if status == "running":
                out.violate("C11.call_never_returned", sig, describe())
            elif status == "ok":
                done_at = ok_values.get(value)
                if done_at is None or value[1] != key:
                    out.violate("C11.value_not_from_successful_invocation_of_key", sig, dict(describe(), value=repr(value)))
                elif done_at > c1:
                    out.violate("C11.value_served_before_produced", sig, dict(describe(), value=repr(value)))
                if value is not None and value[2] is not None and ok_values.get(value) is not None \
                        and not (c0 <= ok_values[value] <= c1) and ok_values[value] < c0:
                    out.probes["hit_served"] = 1
        info = cached.cache_info()
        n_before_post = len(invs)
        lc = marks["last_clear_tick"]
        # a call / invocation counts for the statistics if it started after the last clear
        n_calls = sum(1 for c in calls if c[6] > lc)
        n_invs = sum(1 for r in invs if r[5] > lc)
        if info.hits + info.misses != n_calls:
            out.violate("C11.hits_plus_misses_differs_from_calls", sig, dict(describe(), expected_calls=n_calls))
        elif info.misses != n_invs:
            out.violate("C11.misses_differ_from_invocations", sig, dict(describe(), expected_invocations=n_invs))
        # ---- "behaves as C10 from its current contents": the contents at quiescence are not observable, so the
        # model runs from *every* arrangement of stored keys that is consistent with currsize, and each sequential
        # step keeps the arrangements that explain what was observed; none left = no C10 cache behaves like this
        post = []
        info0 = tuple(cached.cache_info())

        async def continuation():
            for kind, key in sc.post:
                before = len(invs)
                if kind == 0:
                    v = await cached(*sc.args[key], **(sc.kwargs[key] or {}))
                    post.append(("call", key, v, len(invs) - before, tuple(cached.cache_info())))
                elif kind == 1:
                    cached.cache_discard(*sc.args[key], **(sc.kwargs[key] or {}))
                    post.append(("discard", key, None, 0, tuple(cached.cache_info())))
                elif kind == 2:
                    cached.cache_clear()
                    post.append(("clear", key, None, 0, tuple(cached.cache_info())))
                else:
                    post.append(("info", key, None, 0, tuple(cached.cache_info())))

        sc.fail_serial = None
        sim2_task = sim.spawn(continuation(), "post")
        run_sim(sim)
        if sim2_task.error is not None or not sim2_task.done:
            out.violate("C11.cache_unusable_after_quiescence", sig, dict(describe(), error=repr(sim2_task.error)))
        else:
            for serial, key, s0, s1, status, _t in [r[:6] for r in invs]:
                if status == "ok":
                    ok_values[("v", key, serial)] = s1
            stored_ok = sorted({r[1] for r in invs[:n_before_post] if r[4] == "ok"})
            # an unbounded cache never evicts: a key computed successfully after the last clear and after its last
            # discard is still there at quiescence
            must_have = set()
            if sc.maxsize is None:
                for r in invs[:n_before_post]:
                    if r[4] == "ok" and len(r) > 6 and r[6] > lc and r[6] > marks.get("discards", {}).get(r[1], -1):
                        must_have.add(r[1])
                if len(must_have) > info0[3]:
                    out.violate("C11.completed_call_not_stored", sig,
                                dict(describe(), computed_and_never_removed=sorted(must_have), info_at_quiescence=info0))
            cap = sc.maxsize
            states = set()
            for perm in _arrangements(stored_ok, info0[3]):
                if must_have <= set(perm):
                    states.add(perm)
            hits, misses = info0[0], info0[1]
            for step, (what, key, v, ninv, info2) in enumerate(post):
                nxt = set()
                if what == "call":
                    if ninv not in (0, 1) or v not in ok_values or v[1] != key:
                        out.violate("C11.poisoned_entry", sig, dict(describe(), served=repr(v), post=[repr(p) for p in post]))
                        break
                    if ninv:
                        misses += 1
                    else:
                        hits += 1
                    for s_ in states:
                        if (key in s_) != (ninv == 0):
                            continue
                        if key in s_:
                            s2 = tuple(k for k in s_ if k != key) + (key,)
                        elif cap == 0:
                            s2 = s_
                        else:
                            s2 = s_ + (key,)
                            if cap is not None and len(s2) > cap:
                                s2 = s2[1:]
                        nxt.add(s2)
                elif what == "discard":
                    nxt = {tuple(k for k in s_ if k != key) for s_ in states}
                elif what == "clear":
                    nxt = {()}
                    hits = misses = 0
                else:
                    nxt = states
                nxt = {s_ for s_ in nxt if len(s_) == info2[3]}
                if not nxt or info2[:2] != (hits, misses):
                    out.violate("C11.continuation_differs_from_model", sig,
                                dict(describe(), step=step, info_at_quiescence=info0, post=[repr(p) for p in post],
                                     possible_contents_before_step=sorted(states), expected_counters=(hits, misses)))
                    break
                states = nxt
    if sim.cancel_sent is not None:
        out.fault_free = False
        out.faults["cancel"] = 1
        if sim.cancel_fired_at and sim.cancel_fired_at[2] == "wrapped":
            out.probes["cancel_in_wrapped_call"] = 1
    if any(r[4] == "failed" for r in invs):
        out.fault_free = False
        out.faults["wrapped_call_raises"] = 1
        out.probes["failed_call"] = 1
    if out.probes.get("clear_in_flight"):
        out.faults["clear_in_flight"] = 1
    if out.probes.get("discard_in_flight"):
        out.faults["discard_in_flight"] = 1
    overlapped = any(a[2] < b[2] <= (a[3] if a[3] is not None else 10**9) for a in invs for b in invs if a is not b)
    out.nontrivial = overlapped
    out.shape = (sc.backend, len(sc.args[0]), sc.maxsize, sc.nkeys, tuple(tuple(o) for ops in sc.progs for o in ops), sc.fail_serial,
                 sc.cancel, hash(tuple(sim.trace)))
    if ctx.want_sample:
        out.sample = describe()
    if ctx.want_log:
        out.log = [invs, calls, sim.trace]
    return finish_outcome(out, st, sim, ctx)


def explore(st, ctx):
    return [execute(st, ctx)]
