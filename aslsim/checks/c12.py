"""
C12 - cached_property computes once, serves one value to all, recomputes after del.

Two populations (drawn per run):
  sequential  one task runs a history over {await, take placeholder, await taken, del, failing
              getter} on two instances; compared op by op with a model of the attribute slot
  concurrent  2..4 awaiting tasks (+ optional deleting task), getter suspending 1..2 times, lock
              type absent / SimLock, getter failure, cancellation at the c-th suspension
"""

from ..actors import InjectedFault
from ..loop import PAUSE, CANCEL, make_lock_type

# what a failing getter may raise: also the exception types the machinery itself handles somewhere
GETTER_ERRORS = (InjectedFault, KeyError, AttributeError, TypeError, LookupError, RuntimeError, ValueError)
from ..runner import Outcome
from ..tools import lib
from .common import set_interrupts, COMPONENTS_BASE, COMPONENTS_AIO, run_sim, new_sim, finish_outcome, pick_backend, make_lock

PID = "C12"
LEVEL = "exploration"
BUDGET = {"quick": 200000, "thorough": 4000000}
RULE = (
    "sequential runs: history of <=15 ops over {await attr, take attr, await a taken awaitable, del attr, "
    "arm getter failure} on two instances, with/without lock type; oracle = model of the slot (getter runs iff "
    "nothing cached; cached value returned; failure caches nothing; del -> next access recomputes; per instance). "
    "concurrent runs: 2..4 awaiters (direct await or take-then-await), getter suspending 1..2x, lock none / "
    "SimLock type (policy knobs), optional deleter task, getter failure, cancel@c; oracle with lock: getter only "
    "under the placeholder's lock, <=1 successful getter run wholly inside a del-free epoch, all awaits wholly "
    "inside one epoch return one object, lock free and everybody finished at quiescence; without lock: every "
    "value is one some getter run returned; afterwards accesses are served from the cache. Non-trivial: "
    "(sequential) >=1 cached hit and >=1 del or failure; (concurrent) >=2 awaiters overlapped a computation; "
    "distinct = distinct (scenario, interleaving)."
    " Extensions of rounds 9-12: getter values that all compare equal, or None from one designated run; clause: what is cached after a deletion is the value of a computation begun after it."
)
COMPONENTS = dict(COMPONENTS_AIO, models=["attribute-slot model of cached_property (sequential histories)"])
ASSUMPTIONS = [
    "lock type = SimLock stub (token loop) or asyncio.Lock (backend B), instantiated by the library per placeholder",
    "epoch clauses ignore awaits/getter runs that span a del (DESIGN 9, C12 soundness note)",
]
PROBES = ("arrival_during_compute", "del_during_compute", "cancel_during_compute", "getter_failed",
          "second_instance", "other_instance_in_use", "held_awaitable_awaited_again", "stale_writeback_nolock", "lock_contended",
          "recompute_after_del")


# =========================================================================== sequential
def gen_seq(ch):
    sc = type("Scn", (), {})()
    sc.mode = "seq"
    sc.lock = ch.chance(1, 2)
    sc.susp = [ch.draw(3) for _ in range(3)]
    sc.fault_kind = ch.draw(len(GETTER_ERRORS))
    ops = []
    for _ in range(ch.between(1, 15)):
        # await | take | await taken | del | arm failure | await the attribute of a temporary instance
        kind = ch.weighted([6, 2, 3, 2, 1, 1])
        ops.append((kind, ch.draw(2), ch.draw(3)))
    sc.ops = ops
    sc.falsy_inst = ch.chance(1, 4)
    sc.owner_kind = ch.weighted([4, 1, 1])
    # what the getter returns: a fresh object unlike any other | fresh objects that all compare equal
    sc.value_kind = ch.weighted([3, 1])
    return sc


def make_class(sc, sim, runs, lock_type, state):
    L = lib()

    async def getter(self):
        rec = {"inst": self.iid, "start": state.tick(), "end": None, "status": "running", "value": None,
               "task": sim.current.id if sim.current else None, "locked": None}
        if lock_type is not None:
            task = sim.current
            rec["locked"] = any(lk.owner is task for lk in sim.locks)
        if sc.mode == "conc" and self.iid != 0:
            state.other_runs.append(rec)  # another instance of the same class: its own business
        else:
            runs.append(rec)
        if any(r is not rec and r["status"] == "running" and r["inst"] == self.iid for r in runs):
            state.overlap_seen = True
        try:
            for _ in range(sc.susp[len(runs) % 3] if sc.mode == "seq" else sc.gsusp[len(runs) % 3]):
                await sim.suspend(PAUSE, None, "getter")
            if state.fail_armed.get(self.iid):
                state.fail_armed[self.iid] = False
                rec["status"] = "failed"
                rec["exc"] = GETTER_ERRORS[sc.fault_kind % len(GETTER_ERRORS)]("getter%d" % len(runs))
                raise rec["exc"]
            value = ["value", self.iid, (runs if rec in runs else state.other_runs).index(rec)]
            vk = getattr(sc, "value_kind", 0)
            if vk == 1:
                value = ["value", self.iid]  # equal to what every other run of this instance returns - another object
            elif vk == 2 and rec in runs and runs.index(rec) == sc.none_run:
                value = None  # one run's value is None: a value like any other
            rec["value"] = value
            rec["status"] = "ok"
            rec["end"] = state.tick()
            return value
        except CANCEL:
            rec["status"] = "cancelled"
            rec["end"] = state.tick()
            raise
        finally:
            if rec["end"] is None:
                rec["end"] = state.tick()

    if lock_type is not None:
        prop = L.cached_property(lock_type)(getter)
    else:
        prop = L.cached_property(getter)

    kind = getattr(sc, "owner_kind", 0)
    if kind == 1:
        # the property lives on a mixin without instance dict (__slots__ = ()); the instances are of an ordinary subclass
        class Mixin:
            __slots__ = ()

        Mixin.attr = prop
        prop.__set_name__(Mixin, "attr")

        class Holder(Mixin):
            def __init__(self, iid):
                self.iid = iid
    else:
        class Holder:
            def __init__(self, iid):
                object.__setattr__(self, "iid", iid)

        if kind == 2:
            # an owner that forbids plain attribute assignment (frozen dataclass style); it has a normal __dict__
            def _frozen(self, name, value):
                raise AttributeError("cannot assign to field %r" % name)

            Holder.__setattr__ = _frozen
        Holder.attr = prop
        prop.__set_name__(Holder, "attr")

    if getattr(sc, "falsy_inst", False):
        # a container-like owner that is currently empty tests false: it owns its cached attribute all the same
        Holder.__len__ = lambda self: 0
    return Holder


class TickState:
    def __init__(self):
        self.other_runs = []
        self.t = 0
        self.fail_armed = {}
        self.overlap_seen = False

    def tick(self):
        self.t += 1
        return self.t


def run_seq(sc, st, ctx, out, sim):
    state = TickState()
    runs = []
    lock_type = make_lock(sim) if sc.lock else None
    Holder = make_class(sc, sim, runs, lock_type, state)
    insts = [Holder(0), Holder(1)]
    trace = []

    async def history():
        taken = {}
        for kind, ii, slot in sc.ops:
            inst = insts[ii]
            nruns = len(runs)
            if kind == 0:
                try:
                    res = ("value", await inst.attr)
                except GETTER_ERRORS as err:
                    res = ("fault",) if any(r.get("exc") is err for r in runs) else ("other_error", repr(err))
            elif kind == 1:
                taken[(ii, slot)] = inst.attr
                res = ("taken",)
            elif kind == 2:
                aw = taken.get((ii, slot))
                if aw is None:
                    res = ("none",)
                else:
                    try:
                        res = ("value", await aw)
                    except GETTER_ERRORS as err:
                        res = ("fault",) if any(r.get("exc") is err for r in runs) else ("other_error", repr(err))
            elif kind == 3:
                try:
                    del inst.attr
                    res = ("deleted",)
                except AttributeError:
                    res = ("attribute_error",)
            elif kind == 4:
                state.fail_armed[ii] = True
                res = ("armed",)
            else:
                # nobody but the awaitable refers to the instance
                try:
                    res = ("value", await Holder(7 + len(trace)).attr)
                except GETTER_ERRORS as err:
                    res = ("fault",) if any(r.get("exc") is err for r in runs) else ("other_error", repr(err))
                except Exception as err:  # noqa
                    res = ("other_error", repr(err))
            trace.append((res, len(runs) - nruns))

    sim.spawn(history())
    run_sim(sim)
    # ---- model
    slot = [None, None]  # None absent | ("ph",) placeholder | ("val", v)
    cached = [None, None]
    armed = [False, False]
    taken = {}
    expect = []
    nrun = 0
    values = {}

    def compute(ii):
        nonlocal nrun
        nrun += 1
        if armed[ii]:
            armed[ii] = False
            return None
        return ("new", ii)

    ridx = 0
    sig = ("seq", "lock" if sc.lock else "nolock")
    ok = True
    for i, (kind, ii, sl) in enumerate(sc.ops):
        if i >= len(trace):
            break
        got, ngot = trace[i]
        if kind in (0, 2):
            if kind == 2 and (ii, sl) not in taken:
                exp = ("none", 0)
            else:
                fixed = taken.get((ii, sl)) if kind == 2 else None
                if kind == 0 and slot[ii] is None:
                    slot[ii] = "ph"
                if fixed is not None and fixed[0] == "val":
                    exp = ("value_is", fixed[1], 0)
                elif cached[ii] is not None:
                    exp = ("value_is", cached[ii], 0)
                else:
                    if armed[ii]:
                        armed[ii] = False
                        exp = ("fault", 1)
                        if slot[ii] is None:
                            slot[ii] = "ph"
                    else:
                        exp = ("fresh", 1)
        elif kind == 1:
            if cached[ii] is not None and slot[ii] == "val":
                taken[(ii, sl)] = ("val", cached[ii])
            else:
                taken[(ii, sl)] = ("ph",)
                if slot[ii] is None:
                    slot[ii] = "ph"
            exp = ("taken", 0)
        elif kind == 3:
            if slot[ii] is None:
                exp = ("attribute_error", 0)
            else:
                slot[ii] = None
                cached[ii] = None
                exp = ("deleted", 0)
        elif kind == 4:
            armed[ii] = True
            exp = ("armed", 0)
        else:
            exp = ("temp", 1)
        # compare
        bad = None
        if exp[0] == "value_is":
            if got[0] != "value" or got[1] is not exp[1] or ngot != 0:
                bad = "cached value not served (or getter re-ran)"
        elif exp[0] == "fresh":
            if got[0] != "value" or ngot != 1 or got[1][1] != ii:
                bad = "getter did not run exactly once for an uncached access"
            else:
                cached[ii] = got[1]
                slot[ii] = "val"
        elif exp[0] == "temp":
            if got[0] != "value" or ngot != 1:
                bad = "attribute of a temporary instance: expected one getter run and its value"
        elif exp[0] == "fault":
            if got[0] != "fault" or ngot != 1:
                bad = "failing getter: expected the getter's own exception object once, and nothing cached"
        else:
            if got[0] != exp[0] or ngot != exp[1]:
                bad = "op result differs"
        if bad:
            out.violate("C12.history_differs_from_model", sig + (("await", "take", "await_taken", "del", "arm", "await_temp")[kind],),
                        {"op_index": i, "why": bad, "got": repr(got), "runs": ngot, "expected": repr(exp),
                         "ops": [(("await", "take", "await_taken", "del", "arm", "await_temp")[k], a, b) for k, a, b in sc.ops[: i + 1]],
                         "lock": sc.lock})
            ok = False
            break
    if not sim.capped and not sim.deadlock and len(trace) != len(sc.ops) and ok:
        out.violate("C12.history_did_not_finish", sig, {"done": len(trace), "ops": len(sc.ops)})
    if sim.deadlock:
        out.violate("C12.deadlock", sig, {"ops": sc.ops})
    for lk in sim.locks:
        if lk.owner is not None or lk.waiters:
            out.violate("C12.lock_not_free_at_quiescence", sig, {"ops": sc.ops})
            break
    kinds = [k for k, _, _ in sc.ops]
    hit = any(t[0][0] == "value" and t[1] == 0 for t in trace)
    if any(r["status"] == "failed" for r in runs):
        out.probes["getter_failed"] = 1
        out.faults["getter_raises"] = 1
        out.fault_free = False
    if len({r["inst"] for r in runs}) > 1:
        out.probes["second_instance"] = 1
    if 3 in kinds and len(runs) >= 2:
        out.probes["recompute_after_del"] = 1
    out.nontrivial = hit and (3 in kinds or "getter_failed" in out.probes)
    out.shape = ("seq", sc.lock, sc.value_kind, tuple(sc.ops))
    if ctx.want_sample:
        out.sample = {"mode": "sequential", "lock": sc.lock,
                      "ops": [(("await", "take", "await_taken", "del", "arm", "await_temp")[k], a, b) for k, a, b in sc.ops],
                      "trace": [repr(t) for t in trace]}
    if ctx.want_log:
        out.log = [[(repr(t[0][0]), t[1]) for t in trace], sim.trace]


# =========================================================================== concurrent
def gen_conc(ch):
    sc = type("Scn", (), {})()
    sc.mode = "conc"
    sc.lock = ch.chance(2, 3)
    sc.lock_policy = ch.draw(2)
    sc.lock_acq = ch.chance(1, 3)
    sc.lock_rel = ch.chance(1, 3)
    sc.gsusp = [ch.between(1, 2) for _ in range(3)]
    sc.n = ch.between(2, 4)
    progs = []
    for _ in range(sc.n):
        ops = []
        for _ in range(ch.between(1, 3)):
            # 0 direct await | 1 take, pause, await | 2 await an awaitable some task took earlier (shared pool)
            ops.append((ch.weighted([4, 2, 2]), ch.draw(3)))
        progs.append(ops)
    sc.progs = progs
    sc.deleter = None
    if ch.chance(1, 3):
        sc.deleter = [ch.draw(4) for _ in range(ch.between(1, 3))]  # pauses before each del
    sc.fail_first = ch.chance(1, 5)
    sc.cancel = ch.draw(sc.n) if ch.chance(1, 3) else None
    sc.interrupt = ch.draw(4)
    sc.backend = pick_backend(ch, 1, 4)
    sc.fault_kind = ch.draw(len(GETTER_ERRORS))
    sc.falsy_inst = ch.chance(1, 4)
    sc.owner_kind = ch.weighted([4, 1, 1])
    # a bystander task uses the same property on ANOTHER instance meanwhile (await / del / await ...)
    sc.bystander = [ch.draw(3) for _ in range(ch.between(1, 4))] if ch.chance(1, 3) else None
    # what the getter returns: a fresh object unlike any other | fresh objects that all compare equal | None from the
    # n-th run (and fresh objects from the others)
    sc.value_kind = ch.weighted([3, 1, 1])
    sc.none_run = ch.draw(3)
    return sc


def run_conc(sc, st, ctx, out, sim):
    set_interrupts(sim, (0, 0, 5, 2)[sc.interrupt])
    state = TickState()
    runs = []
    lock_type = make_lock(sim, sc.lock_policy, sc.lock_acq, sc.lock_rel) if sc.lock else None
    Holder = make_class(sc, sim, runs, lock_type, state)
    inst = Holder(0)
    if sc.fail_first:
        state.fail_armed[0] = True
    awaits = []  # [task, start, end, status, value]
    dels = []
    held = []  # awaitables taken from the instance and kept: any task may await them later, repeatedly

    async def awaiter(ti, ops):
        for kind, pauses in ops:
            rec = [ti, None, None, "running", None]
            awaits.append(rec)
            try:
                if kind == 0:
                    rec[1] = state.tick()
                    if any(r["status"] == "running" for r in runs):
                        out.probes["arrival_during_compute"] = 1
                    rec[4] = await inst.attr
                else:
                    if kind == 1 or not held:
                        t_take = state.tick()
                        aw = inst.attr
                        held.append((aw, t_take))
                        await sim.suspend(PAUSE, None, "awaiter")
                    else:
                        aw, t_take = held[pauses % len(held)]
                        out.probes["held_awaitable_awaited_again"] = 1
                    if type(aw).__name__ == "AwaitableValue":
                        # a finished value was taken: the access happened when it was taken
                        rec[1] = t_take
                    else:
                        # a placeholder re-evaluates the instance when it is awaited: that is the access
                        rec[1] = state.tick()
                    if any(r["status"] == "running" for r in runs):
                        out.probes["arrival_during_compute"] = 1
                    rec[4] = await aw
                rec[3] = "ok"
            except GETTER_ERRORS as err:
                rec[3] = "fault" if any(r.get("exc") is err for r in runs) else "other_error:" + repr(err)
            except CANCEL:
                rec[3] = "cancelled"
                rec[2] = state.tick()
                raise
            rec[2] = state.tick()
            for _ in range(pauses):
                await sim.suspend(PAUSE, None, "awaiter")

    async def deleter(pauses):
        for p in pauses:
            for _ in range(p):
                await sim.suspend(PAUSE, None, "deleter")
            try:
                del inst.attr
            except AttributeError:
                continue
            dels.append(state.tick())
            if any(r["status"] == "running" for r in runs):
                out.probes["del_during_compute"] = 1

    tasks = [sim.spawn(awaiter(i, ops), "a%d" % i) for i, ops in enumerate(sc.progs)]
    if sc.bystander is not None:
        other = Holder(1)

        async def bystander():
            for n_, pauses in enumerate(sc.bystander):
                for _ in range(pauses):
                    await sim.suspend(PAUSE, None, "bystander")
                if n_ % 2:
                    try:
                        del other.attr
                    except AttributeError:
                        pass
                else:
                    await other.attr
                    out.probes["other_instance_in_use"] = 1

        sim.spawn(bystander(), "bystander")
    if sc.deleter is not None:
        sim.spawn(deleter(sc.deleter), "deleter")
    if sc.cancel is not None:
        sim.cancel_plan[tasks[sc.cancel].id] = 1 + st.faults.draw(6)

    def hook(sim_):
        for lk in sim_.locks:
            if lk.waiters:
                out.probes["lock_contended"] = 1
                break
    if sc.lock:
        sim.step_hooks.append(hook)
    run_sim(sim)
    sig = ("conc", "lock" if sc.lock else "nolock")

    def epoch(t):
        return sum(1 for d in dels if d < t)

    def describe():
        return {"mode": "concurrent", "backend": sc.backend, "lock": sc.lock, "lock_policy": [sc.lock_policy, sc.lock_acq, sc.lock_rel],
                "getter_suspensions": sc.gsusp, "programs": sc.progs, "deleter": sc.deleter,
                "bystander_on_another_instance": sc.bystander,
                "fail_first": sc.fail_first,
                "cancel": {"task": sc.cancel, "fired_at": sim.cancel_fired_at} if sc.cancel is not None else None,
                "getter_values": ("distinct", "all equal, distinct objects", "None from run %d" % sc.none_run)[sc.value_kind],
                "getter_runs": [{k: (repr(v) if k == "value" else v) for k, v in r.items()} for r in runs],
                "awaits": [[a[0], a[1], a[2], a[3], repr(a[4])] for a in awaits], "del_ticks": dels,
                "interleaving": [(t >> 2, ("pause", "sleep", "lock_wait", "done")[t & 3]) for t in sim.trace][:150]}

    if sim.deadlock:
        out.violate("C12.deadlock", sig, describe())
    elif not sim.capped:
        for t in sim.tasks:
            if t.error is not None and t.error is not t.cancelled_with:
                out.violate("C12.task_failed", sig + (type(t.error).__name__,), dict(describe(), error=repr(t.error)))
        for a in awaits:
            if a[3] == "running":
                out.violate("C12.awaiter_never_finished", sig, describe())
                break
            if str(a[3]).startswith("other_error"):
                out.violate("C12.getter_error_replaced", sig, dict(describe(), got=a[3]))
                break
        produced = [r["value"] for r in runs if r["status"] == "ok"]
        for a in awaits:
            if a[3] == "ok" and not any(a[4] is v for v in produced):
                out.violate("C12.value_not_from_a_getter_run", sig, dict(describe(), value=repr(a[4])))
                break
        if sc.lock:
            if any(r["locked"] is False for r in runs):
                out.violate("C12.getter_ran_without_lock", sig, describe())
            by_epoch = {}
            for r in runs:
                if r["status"] == "ok" and epoch(r["start"]) == epoch(r["end"]):
                    by_epoch.setdefault(epoch(r["start"]), []).append(r)
            for e, rs in by_epoch.items():
                if len(rs) > 1:
                    out.violate("C12.two_runs_in_one_epoch", sig, dict(describe(), epoch=e))
                    break
            vals = {}
            for a in awaits:
                if a[3] == "ok" and epoch(a[1]) == epoch(a[2]):
                    e = epoch(a[1])
                    if e in vals and vals[e] is not a[4]:
                        out.violate("C12.two_values_in_one_epoch", sig, dict(describe(), epoch=e))
                        break
                    vals[e] = a[4]
            for a in awaits:
                if a[3] != "ok":
                    continue
                before = [d for d in dels if d < a[1]]
                if not before:
                    continue
                run = next((r for r in runs if r["status"] == "ok" and r["value"] is a[4]), None)
                if run is not None and run["start"] < before[-1]:
                    out.violate("C12.value_from_run_started_before_deletion", sig,
                                dict(describe(), access_tick=a[1], del_tick=before[-1], run_start=run["start"]))
                    break
            for lk in sim.locks:
                if lk.owner is not None or lk.waiters:
                    out.violate("C12.lock_not_free_at_quiescence", sig, describe())
                    break
                if lk.misuse:
                    out.violate("C12.lock_misused", sig + (lk.misuse[0][0],), describe())
                    break
        else:
            # probe only: a computation that started before a del wrote its value over a later one
            oks = [r for r in runs if r["status"] == "ok"]
            if dels and len(oks) >= 2 and any(r["start"] < dels[-1] < r["end"] for r in oks):
                out.probes["stale_writeback_nolock"] = 1
        # ---- afterwards: served from the cache
        post = []

        async def after():
            n0 = len(runs)
            v1 = await inst.attr
            n1 = len(runs)
            v2 = await inst.attr
            post.extend([v1, v2, n1 - n0, len(runs) - n1])

        n_runs_before_after = len(runs)
        state.fail_armed[0] = False
        t2 = sim.spawn(after(), "after")
        run_sim(sim)
        if t2.error is not None or len(post) != 4:
            out.violate("C12.unusable_after_quiescence", sig, dict(describe(), error=repr(t2.error)))
        elif post[0] is not post[1] or post[3] != 0:
            out.violate("C12.not_served_from_cache_afterwards", sig, dict(describe(), post=repr(post)))
        else:
            last_del = dels[-1] if dels else 0
            accessed_since = any(a[1] is not None and a[1] > last_del for a in awaits)
            computed_since = [r for r in runs[:n_runs_before_after] if r["start"] > last_del]
            if dels and not accessed_since and not computed_since and post[2] != 1:
                # nothing touched the property after the last deletion: the next access recomputes - whatever a
                # computation that was still in flight across the deletion has returned in the meantime
                out.violate("C12.deletion_did_not_force_recompute", sig, dict(describe(), post=repr(post)))
            elif any(r["status"] == "ok" for r in computed_since) and post[2] != 0:
                # a computation begun after the last deletion returned a value: it is cached (a sibling run that
                # failed or was cancelled later caches nothing, it does not un-cache either)
                out.violate("C12.computed_value_not_cached", sig, dict(describe(), post=repr(post)))
            elif any(r["status"] == "ok" for r in computed_since) and not any(
                    r["status"] == "ok" and r["value"] is post[0] for r in computed_since):
                # ... and what is cached is the value of such a computation: one that was already in flight when the
                # property was deleted must not put its value over it (with or without a lock)
                out.violate("C12.value_of_a_run_from_before_the_deletion_cached_over_a_later_one", sig,
                            dict(describe(), post=repr(post), last_deletion=last_del))
    if sim.cancel_sent is not None:
        out.fault_free = False
        out.faults["cancel"] = 1
        if sim.cancel_fired_at and sim.cancel_fired_at[2] == "getter":
            out.probes["cancel_during_compute"] = 1
    if any(r["status"] == "failed" for r in runs):
        out.probes["getter_failed"] = 1
        out.faults["getter_raises"] = 1
        out.fault_free = False
    if dels:
        out.faults["del_by_other_task"] = len(dels)
        out.fault_free = False
        if any(r["start"] > dels[0] for r in runs):
            out.probes["recompute_after_del"] = 1
    out.nontrivial = bool(out.probes.get("arrival_during_compute"))
    out.shape = ("conc", sc.backend, sc.value_kind, sc.none_run if sc.value_kind == 2 else None, sc.lock, tuple(tuple(o) for ops in sc.progs for o in ops), tuple(sc.deleter or ()),
                 sc.fail_first, sc.cancel, hash(tuple(sim.trace)))
    if ctx.want_sample:
        out.sample = describe()
    if ctx.want_log:
        out.log = [[(a[0], a[1], a[2], a[3]) for a in awaits], dels, sim.trace]


def execute(st, ctx):
    out = Outcome()
    ch = st.scenario
    if ch.chance(2, 3):
        sc = gen_conc(ch)
        sim = new_sim(st, interrupts=False, backend=sc.backend)
        run_conc(sc, st, ctx, out, sim)
    else:
        sc = gen_seq(ch)
        sim = new_sim(st, interrupts=False)
        run_seq(sc, st, ctx, out, sim)
    return finish_outcome(out, st, sim, ctx)


def explore(st, ctx):
    return [execute(st, ctx)]
