"""
C13 - contextmanager equals contextlib.asynccontextmanager for every generator and body outcome.

A generator program is drawn from a small grammar; *every* block outcome is injected at the
yield point (fault enumeration); both decorators get the identical generator function and both
resulting managers run in the simulator with suspensions in every segment.
"""

import contextlib

from ..loop import PAUSE
from ..runner import Outcome
from ..tools import lib
from .common import set_interrupts, COMPONENTS_BASE, run_sim, new_sim, finish_outcome, enumerate_faults

PID = "C13"
LEVEL = "fault_enumeration"
BUDGET = {"quick": 100000, "thorough": 1000000}
RULE = (
    "each run draws a generator program {raise before yield | no yield | yield} x handler {none, finally, "
    "swallow, re-raise, raise new, raise new from None, raise same type, return, yield again, raise "
    "StopAsyncIteration / StopIteration, raise its own RuntimeError (plain, or 'from' the caught one), raise an "
    "equal copy} x afterwards {stop, yield again, raise, raise Stop(Async)Iteration, raise RuntimeError} with "
    "0..2 suspensions per segment, and enumerates all 14 block outcomes {normal, Exception, BaseException, "
    "StopIteration, StopAsyncIteration, RuntimeError, GeneratorExit, KeyboardInterrupt, SystemExit, asyncio.CancelledError, an exception with "
    "value equality, an exception object that tests false}; the generator function may be a functools.partial or a method used through an instance, the statement may run inside "
    "the handler of an unrelated exception; user-defined subclasses of StopIteration / StopAsyncIteration are outcomes too; one pair of executions (asyncstdlib / contextlib) per "
    "outcome. Oracle: same bound value, same generator event log (resumed or thrown into exactly once), same "
    "outcome class (same object propagates / other exception type+marker / suppressed / RuntimeError); the "
    "documented GeneratorExit rule encoded. Non-trivial: the generator yielded; distinct = distinct "
    "(program, outcome, suspension pattern)."
    " Extensions of rounds 9-12: asyncio.CancelledError as block outcome; handler raising a group whose only member is the thrown exception; second yields log what is thrown into them (exactly once); the used-up manager entered a second time."
)
COMPONENTS = COMPONENTS_BASE
ASSUMPTIONS = [
    "reference = contextlib.asynccontextmanager of CPython 3.12.1 on the identical generator function",
    "exception messages are never compared, only type, identity and the marker of exceptions raised by the generator",
    "GeneratorExit leaving the block: where contextlib suppresses or re-raises it, asyncstdlib must propagate that same object "
    "(generator closed, so the handler sees a fresh GeneratorExit)",
]
PROBES = ("suppressed", "replaced_by_generator", "did_not_yield", "did_not_stop", "same_object_propagates",
          "generatorexit_rule", "stopiteration_in_block", "second_entry_of_used_manager")

PRE = ("yield", "raise", "noyield")
HANDLERS = ("none", "finally", "swallow", "reraise", "raise_new", "raise_new_from_none", "raise_same_type",
            "return", "yield_again", "raise_stopasync", "raise_runtime", "raise_runtime_from_caught", "raise_equal_copy",
            "raise_stopiter", "raise_group")
POST = ("stop", "yield_again", "raise", "raise_stopasync", "raise_stopiter", "raise_runtime")
OUTCOMES = ("normal", "Exception", "BaseException", "StopIteration", "StopAsyncIteration", "RuntimeError",
            "GeneratorExit", "KeyboardInterrupt", "EqualException", "FalsyException", "SystemExit",
            "StopIterationSubclass", "StopAsyncIterationSubclass", "CancelledError")


class GenError(Exception):
    def __init__(self, marker):
        Exception.__init__(self, marker)
        self.marker = marker


class BlockBase(BaseException):
    pass


class EndOfStream(StopIteration):
    """A user-defined kind of StopIteration"""


class EndOfAsyncStream(StopAsyncIteration):
    """A user-defined kind of StopAsyncIteration"""


class EqualError(Exception):
    """Exceptions that compare by value, as dataclass-like error types do"""

    def __eq__(self, other):
        return type(other) is type(self) and other.args == self.args

    def __hash__(self):
        return hash(self.args)


class FalsyError(Exception):
    """An exception object that tests false (it has a length, say): an exception all the same"""

    def __len__(self):
        return 0


def marked(exc, marker):
    exc.marker = marker
    return exc


class Prep:
    pass


def prepare(ch):
    prep = Prep()
    prep.pre = PRE[ch.weighted([8, 1, 1])]
    prep.handler = HANDLERS[ch.draw(len(HANDLERS))]
    prep.post = POST[ch.weighted([8, 2, 2, 1, 1, 1])]
    prep.susp = [ch.draw(3) for _ in range(5)]
    prep.interrupt = ch.draw(4)
    # the generator function is called with keyword arguments too, some with names the machinery uses itself
    names = ("func", "self", "args", "kwds", "gen", "label")
    prep.kwargs = {names[ch.draw(len(names))]: i for i in range(ch.draw(3))}
    # the generator function itself may be a functools.partial of an async generator function (no __name__ ...)
    prep.partial = ch.chance(1, 4)
    # ... or an ordinary method of a class, used through an instance
    prep.method = (not prep.partial) and ch.chance(1, 4)
    # the whole async-with statement may run inside the handler of an unrelated exception
    prep.ambient = ch.chance(1, 4)
    # afterwards the same manager object is entered a second time (asyncstdlib side: contextlib forgets its arguments
    # on entering and fails with AttributeError, so there is no twin for this step - it is judged by the property text)
    prep.again = ch.chance(1, 4) and prep.handler != "yield_again" and prep.post != "yield_again"
    return prep


def fault_lists(prep, faults):
    return [[o] for o in range(len(OUTCOMES))]


def make_genfunc(prep, sim, log, injected, method_of=None):
    susp = prep.susp

    async def pause(n):
        for _ in range(n):
            await sim.suspend(PAUSE, None, "generator")

    async def genfunc(*pos, **kw):
        arg = pos[-1]
        if method_of is not None and (len(pos) != 2 or not isinstance(pos[0], method_of)):
            log.append(("self_not_bound", repr(pos)))
        elif method_of is None and len(pos) != 1:
            log.append(("unexpected_positionals", repr(pos)))
        log.append(("start", arg, tuple(sorted(kw.items()))))
        await pause(susp[0])
        if prep.pre == "raise":
            raise GenError("pre")
        if prep.pre == "noyield":
            return
        h = prep.handler
        if h == "none":
            yield ("value", arg)
        elif h == "finally":
            try:
                yield ("value", arg)
            finally:
                log.append(("finally",))
        else:
            try:
                yield ("value", arg)
            except BaseException as err:
                log.append(("caught", type(err).__name__, err is injected[0]))
                if type(err) is not GeneratorExit:
                    await pause(susp[1])
                if h == "swallow":
                    pass
                elif h == "reraise":
                    raise
                elif h == "raise_new":
                    raise GenError("new")
                elif h == "raise_new_from_none":
                    raise GenError("new_from_none") from None
                elif h == "raise_same_type":
                    try:
                        new = type(err)("same type")
                    except Exception:
                        new = GenError("same type")
                    raise new
                elif h == "return":
                    return
                elif h == "yield_again":
                    try:
                        yield "again"
                    except BaseException as err2:
                        log.append(("second_yield_got", type(err2).__name__))
                        raise
                elif h == "raise_stopasync":
                    raise StopAsyncIteration("from generator")
                elif h == "raise_stopiter":
                    raise StopIteration("from generator")
                elif h == "raise_runtime":
                    # a RuntimeError of the generator's own, raised while handling (context, not cause)
                    raise marked(RuntimeError("generator's own"), "own_runtime")
                elif h == "raise_runtime_from_caught":
                    raise marked(RuntimeError("generator's own"), "own_runtime_from") from err
                elif h == "raise_group":
                    # a group whose only member is the very exception that was thrown in (what a task group around the
                    # yield makes of it): another exception object all the same
                    cls = ExceptionGroup if isinstance(err, Exception) else BaseExceptionGroup
                    raise marked(cls("cleanup", [err]), "group")
                elif h == "raise_equal_copy":
                    try:
                        new = type(err)(*err.args)
                    except Exception:
                        new = GenError("copy")
                    raise marked(new, "copy")
        log.append(("after",))
        await pause(susp[2])
        if prep.post == "yield_again":
            try:
                yield "again2"
            except BaseException as err2:
                log.append(("second_yield_got", type(err2).__name__))
                raise
        elif prep.post == "raise":
            raise GenError("post")
        elif prep.post == "raise_stopasync":
            raise StopAsyncIteration("post")
        elif prep.post == "raise_stopiter":
            raise StopIteration("post")
        elif prep.post == "raise_runtime":
            raise marked(RuntimeError("post"), "post_runtime")

    return genfunc


def make_exc(outcome):
    if outcome == "normal":
        return None
    if outcome == "Exception":
        return ValueError("block")
    if outcome == "BaseException":
        return BlockBase("block")
    if outcome == "StopIteration":
        return StopIteration("block")
    if outcome == "StopAsyncIteration":
        return StopAsyncIteration("block")
    if outcome == "RuntimeError":
        return RuntimeError("block")
    if outcome == "GeneratorExit":
        return GeneratorExit("block")
    if outcome == "EqualException":
        return EqualError("block")
    if outcome == "FalsyException":
        return FalsyError("block")
    if outcome == "SystemExit":
        return SystemExit(3)
    if outcome == "StopIterationSubclass":
        return EndOfStream("block")
    if outcome == "StopAsyncIterationSubclass":
        return EndOfAsyncStream("block")
    if outcome == "CancelledError":
        # what a cancelled asyncio task finds in its block (here merely an exception class: no asyncio loop runs)
        import asyncio
        return asyncio.CancelledError("block")
    return KeyboardInterrupt("block")


async def use(factory, prep, sim, log, injected, res, again=None):
    cm = None
    try:
        cm = factory("arg", **prep.kwargs)
        async with cm as value:
            log.append(("bound", value))
            for _ in range(prep.susp[3]):
                await sim.suspend(PAUSE, None, "block")
            if injected[0] is not None:
                raise injected[0]
        log.append(("statement_left",))
        res.append(("suppressed",) if injected[0] is not None else ("normal",))
    except BaseException as err:
        if type(err).__name__ == "Cancel":
            raise
        log.append(("statement_left",))
        res.append(("raised", type(err).__name__, err is injected[0], getattr(err, "marker", None)))
        res.append(("message (never compared)", str(err)[:120]))
    if again is not None and cm is not None:
        # the used-up manager object entered once more: its generator cannot yield again, which is what must be reported -
        # the generator function is not to be called a second time behind the user's back
        starts = sum(1 for e in log if e[0] == "start")
        try:
            async with cm:
                again.append("entered again")
        except BaseException as err:
            if type(err).__name__ == "Cancel":
                raise
            again.append(type(err).__name__)
        again.append(sum(1 for e in log if e[0] == "start") - starts)


def one_side(prep, outcome, st, decorator, interrupts, again=None):
    sim = new_sim(st, interrupts=False)
    set_interrupts(sim, interrupts)
    log, res = [], []
    injected = [make_exc(outcome)]
    genfunc = make_genfunc(prep, sim, log, injected)
    if prep.partial:
        import functools

        factory = functools.partial(decorator(functools.partial(genfunc, "arg")))
        call = lambda _arg, **kw: factory(**kw)  # noqa: E731  (the positional argument is already bound)
    elif prep.method:
        # the async generator function is an ordinary method: the descriptor protocol has to bind self
        Resource = type("Resource", (), {})
        genmethod = make_genfunc(prep, sim, log, injected, method_of=Resource)
        Resource.session = decorator(genmethod)
        instance = Resource()
        call = lambda arg, **kw: instance.session(arg, **kw)  # noqa: E731
    else:
        call = decorator(genfunc)
    if prep.ambient:
        async def in_handler():
            try:
                raise LookupError("unrelated, being handled by the caller")
            except LookupError:
                await use(call, prep, sim, log, injected, res, again)

        sim.spawn(in_handler())
    else:
        sim.spawn(use(call, prep, sim, log, injected, res, again))
    run_sim(sim)
    return sim, log, res


def run_prepared(prep, st, ctx):
    out = Outcome()
    outcome = OUTCOMES[st.faults.draw(len(OUTCOMES))]
    L = lib()
    again = [] if prep.again else None
    sim, alog, ares = one_side(prep, outcome, st, L.contextmanager, (0, 0, 5, 2)[prep.interrupt], again)
    # the reference runs on its own simulator with an independent (fixed) schedule: single task
    from ..choice import Chooser, Streams
    rst = Streams(st.scenario, st.faults, Chooser(replay=[]))
    rsim, rlog, rres = one_side(prep, outcome, rst, contextlib.asynccontextmanager, 0)
    sig = (prep.pre, prep.handler, prep.post, outcome)

    def describe():
        return {"program": {"pre": prep.pre, "handler": prep.handler, "post": prep.post, "suspensions": prep.susp,
                            "kwargs": prep.kwargs, "generator_function_is_a_partial": prep.partial,
                            "generator_function_is_a_method": prep.method,
                            "inside_handler_of_unrelated_exception": prep.ambient},
                "block_outcome": outcome, "asyncstdlib": {"log": [repr(e) for e in alog], "result": repr(ares)},
                "contextlib": {"log": [repr(e) for e in rlog], "result": repr(rres)}}

    if sim.deadlock or rsim.deadlock:
        out.violate("C13.deadlock", sig, describe())
    elif sim.capped:
        out.violate("C13.does_not_terminate", sig, dict(describe(), steps=sim.seq))
    elif not sim.capped:
        if not ares or not rres:
            out.violate("C13.did_not_finish", sig, describe())
        else:
            if again is not None and prep.pre == "yield" and (len(again) != 2 or again[0] != "RuntimeError" or again[1] != 0):
                out.violate("C13.used_up_manager_entered_again", sig, dict(describe(), second_entry=again))
            elif again is not None and prep.pre == "yield":
                out.probes["second_entry_of_used_manager"] = 1
            a, r = ares[0], rres[0]
            # "resumes or throws into the generator exactly once": a generator that yields a second time is reported, not
            # closed on the spot (contextlib of 3.12 does close it: those events are dropped from the reference log);
            # what its eventual finalisation does after the statement was left is no part of the comparison
            if any(e[0] == "second_yield_got" for e in alog[: alog.index(("statement_left",))]):
                out.violate("C13.generator_thrown_into_twice", sig, describe())
            alog = [e for e in alog[: alog.index(("statement_left",))] if e[0] != "second_yield_got"]
            rlog = [e for e in rlog[: rlog.index(("statement_left",))] if e[0] != "second_yield_got"]
            elog, expect = rlog, r
            if outcome == "GeneratorExit":
                # the documented difference: the generator is closed, not thrown into
                elog = [(e[0], e[1], False) if e[0] == "caught" else e for e in rlog]
                alog_n = [(e[0], e[1], False) if e[0] == "caught" else e for e in alog]
                if r[0] == "suppressed" or (r[0] == "raised" and r[1] == "GeneratorExit"):
                    expect = ("raised", "GeneratorExit", True, None)
                    out.probes["generatorexit_rule"] = 1
                    # what happens after a swallowed GeneratorExit differs by construction (aclose vs athrow)
                    cut = next((i for i, e in enumerate(elog) if e[0] == "caught"), None)
                    if cut is not None:
                        elog = elog[: cut + 1]
                        alog_n = alog_n[: cut + 1]
            else:
                alog_n = alog
            if a != expect:
                out.violate("C13.outcome_differs", sig, describe())
            elif alog_n != elog:
                out.violate("C13.generator_log_differs", sig, describe())
            if a[0] == "suppressed":
                out.probes["suppressed"] = 1
            elif a[0] == "raised":
                if a[2]:
                    out.probes["same_object_propagates"] = 1
                elif a[3] is not None:
                    out.probes["replaced_by_generator"] = 1
                elif a[1] == "RuntimeError" and prep.pre == "noyield":
                    out.probes["did_not_yield"] = 1
                elif a[1] == "RuntimeError":
                    out.probes["did_not_stop"] = 1
            if outcome in ("StopIteration", "StopAsyncIteration"):
                out.probes["stopiteration_in_block"] = 1
    out.nontrivial = prep.pre == "yield"
    out.fault_free = outcome == "normal"
    if outcome != "normal":
        out.faults["block_raises_" + outcome] = 1
    out.shape = (prep.pre, prep.handler, prep.post, outcome, tuple(prep.susp), tuple(sorted(prep.kwargs)), prep.partial,
                 prep.method, prep.ambient)
    if ctx.want_sample:
        out.sample = describe()
    if ctx.want_log:
        out.log = [alog, ares, sim.trace]
    return finish_outcome(out, st, sim, ctx)


def execute(st, ctx):
    prep = prepare(st.scenario)
    out = run_prepared(prep, st, ctx)
    out.lists = st.recorded()
    return out


def explore(st, ctx):
    return enumerate_faults(st, ctx, prepare, run_prepared, fault_lists)
