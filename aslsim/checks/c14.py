"""
C14 - ExitStack unwinds like nested async-with; each exit runs exactly once.

Two populations (drawn per run):
  program   0..4 entries registered in a block that ends normally or raises; compared with the
            literal nested ``async with`` / ``with`` statement built from identical managers
  history   register / aclose / pop_all / leave block / unwind again in seeded order; judged by
            run-exactly-once counters and LIFO order
Exits (and enters) suspend; both executions run as tasks of the same simulated loop.
"""

from ..loop import PAUSE
from ..runner import Outcome
from ..tools import lib
from .common import set_interrupts, COMPONENTS_BASE, run_sim, new_sim, finish_outcome

PID = "C14"
LEVEL = "exploration"
BUDGET = {"quick": 250000, "thorough": 5000000}
RULE = (
    "program runs: 0..4 entries, each one of {entered async CM, entered sync CM, pushed async CM, pushed sync "
    "CM, pushed async exit callable, pushed sync exit callable, callback with args (sync/async)} x exit "
    "behaviour {falsy, truthy, raise new, raise new while handling, raise KeyboardInterrupt / SystemExit, raise the block's own exception object again}, entering may fail, block ends normally or "
    "raises, exits suspend 0..2x; oracle: exit invocation sequence with the exception each received (by tag) and "
    "final outcome equal to the literal nested async-with/with statement. history runs: seeded sequences over "
    "{register, aclose, pop_all, leave block, aclose again, close the popped stack}; oracle: every registered "
    "exit ran exactly once iff its stack was unwound, never twice, never on the original stack after pop_all, "
    "LIFO within each unwind; every single unwind (aclose midway, leaving the block, aclose again, closing the popped "
    "stack) hands each exit the exception in flight and ends as the unwinding rule says (rule cross-checked against the "
    "nested statements in every program run). Both populations also run inside the handler of an unrelated exception "
    "and with exception objects that test false. Non-trivial: >=2 entries and (a block exception or an exit that raises/suppresses "
    "or a history op); distinct = distinct (entries, outcome, history) by 64-bit hash."
    " Extensions of rounds 9-12: exits raising KeyboardInterrupt / SystemExit, re-raising the block's own object, enters failing with AttributeError, exits pushed during an enter, registration before the block is entered, callback keywords named like the machinery's parameters, all three exit arguments compared."
    " Round 13: replies whose truth test raises (when an exception is in flight)."
)
COMPONENTS = COMPONENTS_BASE
ASSUMPTIONS = [
    "reference = the async with / with statements of CPython 3.12.1 executing identical manager objects",
    "exceptions are compared by the tag of the object raised (block / exit name / enter name), not by message or __context__",
]
PROBES = ("suppress_then_raise", "replacement_chain", "enter_failed", "callback_cannot_suppress", "aclose_midway",
          "pop_all", "unwind_again", "block_raises", "sync_cm", "pushed_callable", "ambient_exception", "falsy_exception",
          "stack_reused_after_unwind", "exit_raises_keyboardinterrupt_or_systemexit", "exit_pushed_during_an_enter", "registered_before_the_block_was_entered", "exit_raises_the_blocks_exception_object_again", "pop_all_inside_aenter", "pop_all_inside_an_exit", "exit_raises_stopiteration", "dual_protocol_manager")

KINDS = ("async_cm", "sync_cm", "push_async_cm", "push_sync_cm", "push_async_fn", "push_sync_fn",
         "callback_sync", "callback_async")
BEHAVE = ("falsy", "truthy", "raise_new", "raise_handling")


class Tagged(Exception):
    def __init__(self, tag):
        Exception.__init__(self, repr(tag))
        self.tag = tag


class TaggedInterrupt(KeyboardInterrupt):
    def __init__(self, tag):
        KeyboardInterrupt.__init__(self, repr(tag))
        self.tag = tag


class TaggedSystemExit(SystemExit):
    def __init__(self, tag):
        SystemExit.__init__(self, repr(tag))
        self.tag = tag


class TaggedAttributeError(AttributeError):
    """What a failing ``__aenter__`` may well raise - and what a missing protocol method looks like to a careless caller"""

    def __init__(self, tag):
        AttributeError.__init__(self, repr(tag))
        self.tag = tag


class _Ambiguous:
    """An exit's reply whose truth test raises"""

    def __init__(self, exc):
        self.exc = exc

    def __bool__(self):
        raise self.exc


class TaggedStop(StopIteration):
    def __init__(self, tag):
        StopIteration.__init__(self, repr(tag))
        self.tag = tag


def tagged_generator_exit(tag_):
    exc = GeneratorExit(repr(tag_))
    exc.tag = tag_
    return exc


class FalsyTagged(Tagged):
    """An exception object that tests false (it has a length): an exception all the same"""

    def __len__(self):
        return 0


SYNC_KINDS = ("sync_cm", "push_sync_cm", "push_sync_fn")  # callbacks run inside a wrapper coroutine of the stack


def model_unwind(entries, exc, block_exc=None):
    """
    The unwinding rule of the statement, on tags: reverse order; exits see the exception in flight, callbacks
    nothing; a truthy exit suppresses, a raising one replaces.  Cross-checked against the literal nested
    statements in every program run.  Returns (exit log, exception coming out, entries moved away by an exit that
    called pop_all() on the stack being unwound - those are not run by this unwind at all).
    """
    log = []
    todo = list(entries)
    moved = []
    while todo:
        e = todo.pop()
        is_cb = e.kind.startswith("callback")
        recv = None if is_cb else exc
        log.append(("exit", e.name, recv))
        b = e.behave
        if b == "truthy":
            if not is_cb and exc is not None:
                exc = None
        elif b == "raise_new" or b == "raise_interrupt" or (b == "raise_handling" and recv is not None) \
                or (b == "ambiguous" and not is_cb and recv is not None):
            exc = ("exit", e.name)
        elif b == "reraise_block":
            if block_exc is not None:
                exc = block_exc
        elif b == "raise_stop":
            # a StopIteration raised by a *synchronous* exit is an exception like any other for the exits still to
            # come; raised inside a coroutine (an async exit) the interpreter turns it into a RuntimeError at once
            exc = ("stop", e.name) if e.kind in SYNC_KINDS else "RuntimeError"
        elif b == "pop_all_inside":
            moved, todo = todo, []
        elif b == "push_inside":
            # the exit registers one more exit on the stack being unwound: that one is on top now and runs next, once
            extra = Entry()
            extra.name, extra.kind, extra.behave, extra.susp = e.name + "+", "push_sync_fn", "falsy", 0
            extra.enter_fails, extra.args, extra.dual, extra.same_as_previous = False, (), False, False
            todo.append(extra)
    if type(exc) is tuple and exc[0] == "stop":
        exc = "RuntimeError"  # leaving the stack's own coroutine, the interpreter converts it (PEP 479)
    return log, exc, moved


async def in_ambient(ambient, fn):
    """Run ``fn`` while an unrelated exception is being handled by the caller (or plainly)"""
    if not ambient:
        return await fn()
    try:
        raise Tagged("ambient")
    except Tagged:
        return await fn()


def tag(exc):
    return None if exc is None else getattr(exc, "tag", type(exc).__name__)


class Entry:
    __slots__ = ("name", "kind", "behave", "susp", "enter_fails", "args", "dual", "same_as_previous", "via_enter", "push_in_enter", "kwname")

    def __init__(self):
        self.kwname = "flag"        # the name of the keyword argument a callback is registered with
        self.via_enter = False      # this exit is pushed onto the stack by the __aenter__ of the next entry
        self.push_in_enter = None   # name of the entry this manager's __aenter__ pushes

    def describe(self):
        return {"name": self.name, "kind": self.kind, "exit": self.behave, "suspends": self.susp,
                "enter_fails": self.enter_fails, "also_offers_sync_protocol": self.dual,
                "pushed_by_the_enter_of_the_next_entry": self.via_enter,
                "same_object_as_previous_entry": self.same_as_previous}


def gen_entries(ch, n):
    out = []
    for i in range(n):
        e = Entry()
        e.name = "e%d" % i
        e.kind = KINDS[ch.draw(len(KINDS))]
        e.behave = BEHAVE[ch.weighted([4, 2, 2, 2])]
        e.susp = ch.draw(3)
        e.enter_fails = e.kind in ("async_cm", "sync_cm") and ch.chance(1, 10)
        e.args = (i, "x") if not ch.chance(1, 3) else ()  # callbacks with keyword arguments only as well
        # ... whose names may be those of an exit's own parameters
        e.kwname = ("flag", "flag", "exc_type", "exc_val", "tb", "callback")[ch.draw(6)]
        e.dual = e.kind in ("async_cm", "push_async_cm") and ch.chance(1, 4)
        e.same_as_previous = False
        out.append(e)
    return out


class Env:
    """One execution's managers: log, counters"""

    def __init__(self, sim, who, exc_type=Tagged, block_type=None):
        self.block_type = block_type or exc_type
        self.sim = sim
        self.who = who
        self.log = []
        self.count = {}
        self.exc_type = exc_type
        self.current_stack = None  # the stack being unwound right now (for an exit that calls pop_all on it)
        self.moved = []
        self.pop_in_enter = None  # name of the entry whose __aenter__ calls pop_all() on the stack entering it
        self.popped_in_enter = []
        self.registering_stack = None
        self.block_exc = None
        self.enter_type = None  # exception class of failing enters (None: exc_type)
        self.via_objs = {}

    async def pause(self, n):
        for _ in range(n):
            await self.sim.suspend(PAUSE, None, "exit")

    def logic(self, e, exc):
        self.log.append(("exit", e.name, tag(exc)))
        self.count[e.name] = self.count.get(e.name, 0) + 1
        b = e.behave
        if b == "falsy":
            return None
        if b == "truthy":
            return True
        if b == "raise_new" or (b == "raise_handling" and exc is not None):
            raise self.exc_type(("exit", e.name))
        if b == "raise_stop":
            raise TaggedStop(("stop", e.name))
        if b == "raise_interrupt":
            # a request to shut down raised by an exit: an exception like any other for the exits still to come
            raise (TaggedInterrupt, TaggedSystemExit)[e.susp % 2](("exit", e.name))
        if b == "ambiguous":
            # the reply's truth value cannot be taken: finding that out raises - an error like one raised by the exit itself
            # (only when it is handed an exception: without one the statement does not look at the reply at all, while a
            # stack - contextlib's too - does; replies of that kind are outside the property's quantifier anyway)
            return _Ambiguous(self.exc_type(("exit", e.name))) if exc is not None else False
        if b == "reraise_block":
            # the exit raises the very object the block raised (it kept it), whatever happened to it in between
            if self.block_exc is not None:
                raise self.block_exc
            return None
        if b == "pop_all_inside":
            self.moved.append(self.current_stack.pop_all())
        if b == "push_inside" and self.count[e.name] == 1:
            name = e.name + "+"

            def late_exit(et, ev, tb, name=name):
                self.log.append(("exit", name, tag(ev)))
                self.count[name] = self.count.get(name, 0) + 1
                return False

            self.current_stack.push(late_exit)
        return False

    def make(self, e):
        env = self

        class AsyncCM:
            async def __aenter__(self):
                env.log.append(("enter", e.name))
                await env.pause(e.susp)
                if e.push_in_enter is not None and env.registering_stack is not None:
                    # the manager hands a clean-up of its own to the stack it is being entered on
                    env.registering_stack.push(env.via_objs[e.push_in_enter])
                if e.enter_fails:
                    raise (env.enter_type or env.exc_type)(("enter", e.name))
                if env.pop_in_enter == e.name:
                    # the manager splits off everything registered so far while it is being entered
                    env.popped_in_enter.append(env.registering_stack.pop_all())
                return e.name

            async def __aexit__(self, et, ev, tb):
                await env.pause(e.susp)
                env.log.append(("exit_args", e.name, et is None, ev is None, tb is None))
                return env.logic(e, ev)

        if e.dual:
            # the manager also offers the blocking protocol (with another meaning): in an async-with statement,
            # and hence for the stack, the asynchronous side is the one that counts
            def _enter(self):
                env.log.append(("exit", e.name, "SYNC-SIDE-ENTERED"))
                return "sync side"

            def _exit(self, et, ev, tb):
                env.log.append(("exit", e.name, "SYNC-SIDE-EXITED"))
                return True

            AsyncCM.__enter__ = _enter
            AsyncCM.__exit__ = _exit

        class SyncCM:
            def __enter__(self):
                env.log.append(("enter", e.name))
                if e.enter_fails:
                    raise (env.enter_type or env.exc_type)(("enter", e.name))
                return e.name

            def __exit__(self, et, ev, tb):
                env.log.append(("exit_args", e.name, et is None, ev is None, tb is None))
                return env.logic(e, ev)

        async def async_exit(et, ev, tb):
            await env.pause(e.susp)
            env.log.append(("exit_args", e.name, et is None, ev is None, tb is None))
            return env.logic(e, ev)

        def sync_exit(et, ev, tb):
            env.log.append(("exit_args", e.name, et is None, ev is None, tb is None))
            return env.logic(e, ev)

        def sync_cb(*args, **kw):
            env.log.append(("args", e.name, args, tuple(sorted(kw.items()))))
            return env.logic(e, None)

        async def async_cb(*args, **kw):
            await env.pause(e.susp)
            env.log.append(("args", e.name, args, tuple(sorted(kw.items()))))
            return env.logic(e, None)

        return {"async_cm": AsyncCM, "sync_cm": SyncCM, "push_async_cm": AsyncCM, "push_sync_cm": SyncCM,
                "push_async_fn": lambda: async_exit, "push_sync_fn": lambda: sync_exit,
                "callback_sync": lambda: sync_cb, "callback_async": lambda: async_cb}[e.kind]()


async def register(stack, e, obj):
    k = e.kind
    if k in ("async_cm", "sync_cm"):
        await stack.enter_context(obj)
    elif k.startswith("push"):
        stack.push(obj)
    else:
        stack.callback(obj, *e.args, **{e.kwname: e.name})


class _Wrap:
    """Reference only: turns a pushed exit / callback into a context manager for the nested statement"""

    def __init__(self, exit_call):
        self.exit_call = exit_call

    async def __aenter__(self):
        return None

    async def __aexit__(self, et, ev, tb):
        return await self.exit_call(et, ev, tb)


async def nested(entries, objs, i, body):
    if i == len(entries):
        return await body()
    e, obj = entries[i], objs[i]
    k = e.kind
    if k == "async_cm":
        async with obj:
            return await nested(entries, objs, i + 1, body)
    elif k == "sync_cm":
        with obj:
            return await nested(entries, objs, i + 1, body)
    elif k == "push_async_cm":
        async with _Wrap(obj.__aexit__):
            return await nested(entries, objs, i + 1, body)
    elif k == "push_sync_cm":
        async def call(et, ev, tb):
            return obj.__exit__(et, ev, tb)
        async with _Wrap(call):
            return await nested(entries, objs, i + 1, body)
    elif k == "push_async_fn":
        async with _Wrap(obj):
            return await nested(entries, objs, i + 1, body)
    elif k == "push_sync_fn":
        async def call(et, ev, tb):
            return obj(et, ev, tb)
        async with _Wrap(call):
            return await nested(entries, objs, i + 1, body)
    elif k == "callback_sync":
        async def call(et, ev, tb):
            obj(*e.args, **{e.kwname: e.name})
            return False
        async with _Wrap(call):
            return await nested(entries, objs, i + 1, body)
    else:
        async def call(et, ev, tb):
            await obj(*e.args, **{e.kwname: e.name})
            return False
        async with _Wrap(call):
            return await nested(entries, objs, i + 1, body)


def outcome_of(fn_result):
    return fn_result


def make_objects(env, entries):
    objs = []
    for e in entries:
        objs.append(objs[-1] if e.same_as_previous else env.make(e))
    return objs


async def run_program_stack(entries, env, block_raises, res, ambient=False, pre=False):
    L = lib()
    objs = make_objects(env, entries)

    async def register_all(stack):
        for e, obj in zip(entries, objs):
            if e.via_enter:
                env.via_objs[e.name] = obj  # registered by the next entry's __aenter__, not from here
                continue
            if e.push_in_enter is not None:
                env.registering_stack = stack
            await register(stack, e, obj)
            env.registering_stack = None

    async def go():
        stack = L.ExitStack()
        if pre:
            # everything is registered on the stack before its block is entered (as with ``kept = stack.pop_all()``
            # followed by ``async with kept:``): entering a stack does not forget what it holds
            await register_all(stack)
        async with stack:
            if not pre:
                await register_all(stack)
            env.log.append(("body",))
            if block_raises:
                env.block_exc = env.block_type("block")
                raise env.block_exc

    try:
        await in_ambient(ambient, go)
        res.append(("suppressed",) if block_raises else ("normal",))
    except (Tagged, GeneratorExit, TaggedInterrupt, TaggedSystemExit, TaggedAttributeError) as err:
        res.append(("raised", err.tag))
    except Exception as err:
        res.append(("raised", type(err).__name__))


async def run_program_nested(entries, env, block_raises, res, ambient=False):
    objs = make_objects(env, entries)

    async def body():
        env.log.append(("body",))
        if block_raises:
            env.block_exc = env.block_type("block")
            raise env.block_exc

    try:
        await in_ambient(ambient, lambda: nested(entries, objs, 0, body))
        # reaching here: completed normally or an exception was suppressed on the way
        res.append(("completed",))
    except (Tagged, GeneratorExit, TaggedInterrupt, TaggedSystemExit, TaggedAttributeError) as err:
        res.append(("raised", err.tag))
    except Exception as err:
        res.append(("raised", type(err).__name__))


def gen(ch):
    sc = type("Scn", (), {})()
    sc.mode = "program" if ch.chance(2, 3) else "history"
    sc.interrupt = ch.draw(4)
    n = ch.draw(5)
    sc.entries = gen_entries(ch, n)
    if sc.mode == "program":
        # the very same exit object registered twice in a row: it runs twice, like "async with cm: async with cm:"
        for i in range(1, n):
            prev, e = sc.entries[i - 1], sc.entries[i]
            if prev.kind in ("async_cm", "push_async_cm", "push_async_fn") and not prev.enter_fails and ch.chance(1, 8):
                e.name, e.behave, e.susp, e.dual, e.enter_fails = prev.name, prev.behave, prev.susp, prev.dual, False
                e.kind = "push_async_fn" if prev.kind == "push_async_fn" else "push_async_cm"
                e.same_as_previous = True
    sc.block_raises = ch.chance(1, 2)
    if sc.mode == "program" and n:
        if ch.chance(1, 6):
            # one exit raises KeyboardInterrupt / SystemExit (tagged subclasses)
            sc.entries[ch.draw(n)].behave = "raise_interrupt"
        if ch.chance(1, 8):
            # one exit replies with an object whose truth value cannot be taken
            sc.entries[ch.draw(n)].behave = "ambiguous"
        if sc.block_raises and ch.chance(1, 5):
            # one exit raises the very exception object of the block again - also after a later exit suppressed it
            sc.entries[ch.draw(n)].behave = "reraise_block"
        for i in range(1, n):
            if sc.entries[i].same_as_previous:  # one object, one behaviour
                sc.entries[i].behave = sc.entries[i - 1].behave
        cands = [i for i, e in enumerate(sc.entries) if e.kind == "async_cm" and not e.same_as_previous
                 and not (i + 1 < n and sc.entries[i + 1].same_as_previous)]
        if cands and ch.chance(1, 5):
            # the __aenter__ of one manager pushes an exit of its own onto the stack it is being entered on: that exit
            # is registered first (like a statement around the manager's)
            i = cands[ch.draw(len(cands))]
            extra = Entry()
            extra.name, extra.kind, extra.behave, extra.susp = sc.entries[i].name + "<", "push_sync_fn", BEHAVE[ch.draw(3)], 0
            extra.enter_fails, extra.args, extra.dual, extra.same_as_previous = False, (), False, False
            extra.via_enter = True
            sc.entries[i].push_in_enter = extra.name
            sc.entries.insert(i, extra)
    sc.pre_register = ch.chance(1, 4)  # (program mode) everything is registered before the stack's block is entered
    sc.enter_attr = ch.chance(1, 3)  # failing enters raise an AttributeError (tagged subclass)
    sc.block_genexit = ch.chance(1, 8)  # the block ends with exactly GeneratorExit (tagged) instead of an Exception
    sc.ambient = ch.chance(1, 3)   # everything happens while the caller handles an unrelated exception
    sc.falsy_exc = ch.chance(1, 4)  # all exceptions involved test false
    if sc.mode == "history":
        for e in sc.entries:
            e.enter_fails = False
        if n >= 2 and ch.chance(1, 4):
            # one exit calls pop_all() on the very stack that is being unwound
            sc.entries[ch.draw(n)].behave = "pop_all_inside"
        if n >= 1 and ch.chance(1, 4):
            # one exit registers a further exit on the stack while it is being unwound
            e = sc.entries[ch.draw(n)]
            if e.behave != "pop_all_inside":
                e.behave = "push_inside"
        if n >= 1 and ch.chance(1, 4):
            # one exit raises KeyboardInterrupt / SystemExit: the unwind it is part of ends with that - and the stack is
            # as usable afterwards as after any other unwind
            e = sc.entries[ch.draw(n)]
            if e.behave not in ("pop_all_inside", "push_inside"):
                e.behave = "raise_interrupt"
        if n >= 1 and ch.chance(1, 4):
            # one exit raises StopIteration (of all exceptions)
            e = sc.entries[ch.draw(n)]
            if e.behave not in ("pop_all_inside", "push_inside", "raise_interrupt"):
                e.behave = "raise_stop"
        # positions (in registration order) at which extra ops happen
        steps = []
        for i in range(n + 1):
            op = ch.weighted([5, 1, 1])  # nothing | aclose | pop_all
            if op:
                steps.append((i, ("aclose", "pop_all")[op - 1]))
        sc.steps = steps
        # the pop_all at one position may happen *inside* the __aenter__ of the manager entered there
        sc.pop_in_enter = None
        for pos, op in steps:
            if op == "pop_all" and pos < n and sc.entries[pos].kind == "async_cm" and ch.chance(1, 2):
                sc.pop_in_enter = pos
                break
        sc.again = ch.chance(1, 2)
        sc.close_popped = ch.chance(2, 3)
        # the stacks split off by pop_all are closed at the very end, or already inside the block before it is left
        sc.close_popped_early = ch.chance(1, 3)
    return sc


async def run_history(sc, env, res, out_probe=None):
    out_probe = {} if out_probe is None else out_probe
    L = lib()
    objs = [env.make(e) for e in sc.entries]
    by_name = {e.name: e for e in sc.entries}
    popped = []
    groups = [[]]  # registration groups per (current) stack; unwound together
    marks = []
    unwinds = []  # (how, names, exception going in, exits observed, exception coming out)

    async def aclose_of(stk, names, how):
        start = len(env.log)
        out_tag = None
        env.current_stack = stk
        try:
            await in_ambient(sc.ambient, stk.aclose)
        except (Tagged, TaggedInterrupt, TaggedSystemExit) as err:
            out_tag = err.tag
        except RuntimeError:
            out_tag = "RuntimeError"
        unwinds.append((how, list(names or ()), None, [x for x in env.log[start:] if x[0] == "exit"], out_tag))

    holder = []

    async def block():
        async with L.ExitStack() as stack:
            holder.append(stack)
            for i in range(len(sc.entries) + 1):
                for pos, op in sc.steps:
                    if pos == i:
                        if op == "aclose":
                            env.log.append(("mark", "aclose"))
                            await aclose_of(stack, groups[-1], "aclose")
                            marks.append(("unwound", list(groups[-1])))
                            groups.append([])
                        elif sc.pop_in_enter == i:
                            # done by the manager registered at this position, from inside its __aenter__
                            env.pop_in_enter = sc.entries[i].name
                        else:
                            env.log.append(("mark", "pop_all"))
                            popped.append((stack.pop_all(), list(groups[-1])))
                            groups.append([])
                if i < len(sc.entries):
                    env.registering_stack = stack
                    await register(stack, sc.entries[i], objs[i])
                    if env.popped_in_enter:
                        popped.append((env.popped_in_enter.pop(), list(groups[-1])))
                        groups.append([])
                        env.pop_in_enter = None
                        out_probe["pop_all_inside_aenter"] = 1
                    groups[-1].append(sc.entries[i].name)
            if sc.close_popped and sc.close_popped_early:
                while popped:
                    new, names = popped.pop(0)
                    env.log.append(("mark", "close_popped"))
                    await aclose_of(new, names, "close_popped")
                    marks.append(("unwound", names))
            env.log.append(("mark", "leave"))
            env.current_stack = stack
            if sc.block_raises:
                raise env.block_type("block")

    out_tag = None
    try:
        await in_ambient(sc.ambient, block)
    except (Tagged, GeneratorExit, TaggedInterrupt, TaggedSystemExit) as err:
        out_tag = err.tag
        res.append(("raised", err.tag))
    except RuntimeError:
        out_tag = "RuntimeError"
        res.append(("raised", "RuntimeError"))
    marks.append(("unwound", list(groups[-1])))
    leave = max(i for i, x in enumerate(env.log) if x == ("mark", "leave"))
    unwinds.append(("leave", list(groups[-1]), "block" if sc.block_raises else None,
                    [x for x in env.log[leave:] if x[0] == "exit"], out_tag))
    stack = holder[0]
    if sc.again:
        env.log.append(("mark", "again"))
        await aclose_of(stack, [], "again")
    if sc.close_popped:
        for new, names in popped:
            env.log.append(("mark", "close_popped"))
            await aclose_of(new, names, "close_popped")
            marks.append(("unwound", names))
    else:
        for new, names in popped:
            marks.append(("never", names))
    # stacks split off by an exit that called pop_all() while its stack was being unwound: closed last
    for m in list(env.moved):
        env.log.append(("mark", "close_moved"))
        await aclose_of(m, None, "close_moved")
    res.append(("marks", marks))
    judged = []
    expected_moved = []
    for how, names, tin, exits, tout in unwinds:
        if how == "close_moved":
            ents = expected_moved.pop(0) if expected_moved else []
        else:
            ents = [by_name[n] for n in names]
        mlog, mout, mmoved = model_unwind(ents, tin)
        if mmoved or any(e.behave == "pop_all_inside" for e in ents if ("exit", e.name) in [x[:2] for x in mlog]):
            if any(e.behave == "pop_all_inside" and ("exit", e.name) in [x[:2] for x in mlog] for e in ents):
                expected_moved.append(mmoved)
        judged.append((how, [e.name for e in ents], tin, exits, tout, (mlog, mout)))
    res.append(("unwinds", judged))


def execute(st, ctx):
    out = Outcome()
    ch = st.scenario
    sc = gen(ch)
    sim = new_sim(st, interrupts=False)
    set_interrupts(sim, (0, 0, 5, 2)[sc.interrupt])
    exc_type = FalsyTagged if sc.falsy_exc else Tagged
    block_type = tagged_generator_exit if sc.block_genexit else None
    env_a = Env(sim, "stack", exc_type, block_type)
    env_a.enter_type = TaggedAttributeError if sc.enter_attr else None
    res_a, res_r = [], []
    behaves = [e.behave for e in sc.entries]
    kinds = [e.kind for e in sc.entries]

    def describe():
        d = {"mode": sc.mode, "entries": [e.describe() for e in sc.entries], "block_raises": sc.block_raises,
             "inside_handler_of_unrelated_exception": sc.ambient, "exceptions_test_false": sc.falsy_exc,
             "exitstack": {"log": [repr(x) for x in env_a.log], "result": repr(res_a)}}
        if sc.mode == "program":
            d["nested_with"] = {"log": [repr(x) for x in env_r.log], "result": repr(res_r)}
        else:
            d["history"] = {"steps": sc.steps, "again": sc.again, "close_popped": sc.close_popped,
                            "popped_closed_inside_the_block": sc.close_popped_early}
        return d

    if sc.mode == "program":
        env_r = Env(sim, "nested", exc_type, block_type)
        env_r.enter_type = env_a.enter_type
        sim.spawn(run_program_stack(sc.entries, env_a, sc.block_raises, res_a, sc.ambient,
                                    pre=sc.pre_register and not any(e.enter_fails for e in sc.entries)))
        sim.spawn(run_program_nested(sc.entries, env_r, sc.block_raises, res_r, sc.ambient))
        run_sim(sim)
        sig = ("program",)
        if sim.deadlock:
            out.violate("C14.deadlock", sig, describe())
        elif sim.capped:
            out.violate("C14.unwind_does_not_terminate", sig, dict(describe(), steps=sim.seq))
        elif not sim.capped:
            if not res_a or not res_r:
                out.violate("C14.did_not_finish", sig, describe())
            else:
                a, r = res_a[0], res_r[0]
                # the unwinding model used for histories must agree with the literal statements (else: harness bug)
                failing = next((i for i, e in enumerate(sc.entries) if e.enter_fails), None)
                if failing is None:
                    mlog, mexc, _ = model_unwind(sc.entries, "block" if sc.block_raises else None, "block" if sc.block_raises else None)
                else:
                    mlog, mexc, _ = model_unwind(sc.entries[:failing], ("enter", sc.entries[failing].name))
                if mlog != [x for x in env_r.log if x[0] == "exit"] or (("raised", mexc) if mexc is not None else ("completed",)) != r:
                    raise RuntimeError("unwind model disagrees with the nested statements: %r / %r vs %r" % (mlog, mexc, describe()))
                # the nested statement cannot tell 'normal' from 'suppressed' from outside either
                a_n = ("completed",) if a[0] in ("normal", "suppressed") else a
                ea = [x for x in env_a.log if x[0] in ("exit", "args", "exit_args")]
                er = [x for x in env_r.log if x[0] in ("exit", "args", "exit_args")]
                if ea != er:
                    kind = "order" if sorted(map(repr, ea)) == sorted(map(repr, er)) else \
                        ("exception_routing" if [x[:2] for x in ea] == [x[:2] for x in er] else "which_exits_ran")
                    out.violate("C14.exit_sequence_differs", sig + (kind,), describe())
                elif a_n != r:
                    out.violate("C14.outcome_differs", sig + (a_n[0], r[0]), describe())
                elif sc.block_raises and a[0] == "normal":
                    out.violate("C14.outcome_differs", sig + ("normal_but_block_raised",), describe())
                for name, c in env_a.count.items():
                    if c != sum(1 for e in sc.entries if e.name == name):
                        out.violate("C14.exit_ran_twice", sig, describe())
                entered = {x[1] for x in env_a.log if x[0] == "enter"}
                for e in sc.entries:
                    if e.enter_fails and env_a.count.get(e.name):
                        out.violate("C14.exited_without_enter", sig, describe())
                        break
            if any(e.enter_fails for e in sc.entries) and any(x[0] == "enter" for x in env_a.log):
                if any(e.enter_fails and ("enter", e.name) in env_a.log for e in sc.entries):
                    out.probes["enter_failed"] = 1
                    out.faults["enter_raises"] = 1
                    out.fault_free = False
    else:
        sim.spawn(run_history(sc, env_a, res_a, out.probes))
        run_sim(sim)
        sig = ("history",)
        if sim.deadlock:
            out.violate("C14.deadlock", sig, describe())
        elif sim.capped:
            out.violate("C14.unwind_does_not_terminate", sig, dict(describe(), steps=sim.seq))
        elif not sim.capped:
            marks = [r for r in res_a if r[0] == "marks"]
            if not marks:
                out.violate("C14.did_not_finish", sig, describe())
            else:
                should = {}
                for what, names in marks[0][1]:
                    for nme in names:
                        should[nme] = 1 if what == "unwound" else 0
                for e in sc.entries:
                    c = env_a.count.get(e.name, 0)
                    want = should.get(e.name, 0)
                    if c > want:
                        clause = "C14.exit_ran_twice" if want == 1 else "C14.exit_ran_on_popped_stack"
                        out.violate(clause, sig, dict(describe(), entry=e.name, ran=c))
                        break
                    if c < want:
                        out.violate("C14.exit_never_ran", sig, dict(describe(), entry=e.name))
                        break
                for how, names, tin, exits, tout, (mlog, mout) in [u for r_ in res_a if r_[0] == "unwinds" for u in r_[1]]:
                    if exits != mlog:
                        kind = "exception_routing" if [x[:2] for x in exits] == [x[:2] for x in mlog] else "which_exits_ran"
                        out.violate("C14.unwind_differs_from_rule", sig + (how, kind),
                                    dict(describe(), unwind=how, entries=names, observed=repr(exits), expected=repr(mlog)))
                        break
                    if tout != mout:
                        out.violate("C14.unwind_outcome_differs", sig + (how, "raised" if tout is not None else "completed"),
                                    dict(describe(), unwind=how, entries=names, exception_in=repr(tin),
                                         observed=repr(tout), expected=repr(mout)))
                        break
                # LIFO within each unwind: exits between two marks are in reverse registration order
                order = {e.name: i for i, e in enumerate(sc.entries)}
                seg = []
                for x in env_a.log + [("mark", "end")]:
                    if x[0] == "mark":
                        idx = [order[nme] if nme in order else order[nme[:-1]] - 0.5 for nme in seg]  # "eK+" runs right after eK
                        if idx != sorted(idx, reverse=True):
                            out.violate("C14.not_lifo", sig, describe())
                            break
                        seg = []
                    elif x[0] == "exit":
                        seg.append(x[1])
            if any(op == "aclose" for _, op in sc.steps):
                out.probes["aclose_midway"] = 1
            if any(op == "pop_all" for _, op in sc.steps):
                out.probes["pop_all"] = 1
            if sc.again:
                out.probes["unwind_again"] = 1
    exits = [x for x in env_a.log if x[0] == "exit"]
    if sc.block_raises:
        out.probes["block_raises"] = 1
        out.faults["block_raises"] = 1
        out.fault_free = False
    if any(b in ("raise_new", "raise_handling") for b in behaves):
        out.faults["exit_raises"] = 1
        out.fault_free = False
    tags = [x[2] for x in exits]
    if any(t is None for t in tags[1:]) and any(isinstance(t, tuple) for t in tags):
        out.probes["suppress_then_raise"] = 1
    if len({repr(t) for t in tags if isinstance(t, tuple)}) >= 2:
        out.probes["replacement_chain"] = 1
    if any(k.startswith("callback") and b == "truthy" for k, b in zip(kinds, behaves)) and sc.block_raises:
        out.probes["callback_cannot_suppress"] = 1
    if any(k in ("sync_cm", "push_sync_cm") for k in kinds):
        out.probes["sync_cm"] = 1
    if any(k in ("push_async_fn", "push_sync_fn") for k in kinds):
        out.probes["pushed_callable"] = 1
    if sc.ambient:
        out.probes["ambient_exception"] = 1
    if env_a.moved:
        out.probes["pop_all_inside_an_exit"] = 1
    if any(b == "raise_stop" for b in behaves) and any(x[0] == "exit" for x in env_a.log):
        out.probes["exit_raises_stopiteration"] = 1
    if any(e.dual for e in sc.entries):
        out.probes["dual_protocol_manager"] = 1
    if any(e.via_enter for e in sc.entries):
        out.probes["exit_pushed_during_an_enter"] = 1
    if sc.mode == "program" and sc.pre_register and sc.entries and not any(e.enter_fails for e in sc.entries):
        out.probes["registered_before_the_block_was_entered"] = 1
    if any(b == "raise_interrupt" for b in behaves) and any(x[0] == "exit" for x in env_a.log):
        out.probes["exit_raises_keyboardinterrupt_or_systemexit"] = 1
    if any(b == "reraise_block" for b in behaves) and sc.block_raises:
        out.probes["exit_raises_the_blocks_exception_object_again"] = 1
    if sc.falsy_exc and (sc.block_raises or out.faults.get("exit_raises")):
        out.probes["falsy_exception"] = 1
    if sc.mode == "history" and any(op == "aclose" and pos < len(sc.entries) for pos, op in sc.steps):
        out.probes["stack_reused_after_unwind"] = 1
    out.nontrivial = len(sc.entries) >= 2 and (sc.block_raises or any(b != "falsy" for b in behaves) or sc.mode == "history")
    out.shape = (sc.mode, sc.ambient, sc.falsy_exc, tuple((e.kind, e.behave, e.enter_fails) for e in sc.entries), sc.block_raises,
                 tuple(sc.steps) if sc.mode == "history" else None,
                 (sc.again, sc.close_popped) if sc.mode == "history" else None)
    if ctx.want_sample:
        out.sample = describe()
    if ctx.want_log:
        out.log = [env_a.log, res_a, sim.trace]
    return finish_outcome(out, st, sim, ctx)


def explore(st, ctx):
    return [execute(st, ctx)]
