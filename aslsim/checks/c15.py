"""
C15 - context managers as decorators wrap every call in a fresh, paired context.

A coroutine function decorated with a contextmanager-created manager (or a class based
ContextDecorator) is called by 1..3 tasks, 1..3 times each; enter, body and exit suspend; bodies
return, raise (suppressed or not) or are cancelled at the c-th suspension.
"""

from ..actors import InjectedFault
from ..loop import PAUSE, CANCEL
from ..runner import Outcome
from ..tools import lib
from .common import set_interrupts, COMPONENTS_BASE, COMPONENTS_AIO, run_sim, new_sim, finish_outcome, pick_backend

PID = "C15"
LEVEL = "exploration"
BUDGET = {"quick": 250000, "thorough": 5000000}
RULE = (
    "each run draws a manager kind (generator-based via contextmanager / class-based ContextDecorator), whether "
    "it suppresses, the layout (one manager object on two functions / two manager objects stacked on each function in either order / one function decorated separately by two manager objects), whether the first manager object is also entered directly once by a further task, the decorated coroutine function (plain or a method called through its instance, called with keyword "
    "arguments named like the machinery's own parameters, raising an exception object that may test false), 1..3 caller tasks with 1..3 sequential calls each (body returns or raises), suspension counts "
    "for enter/body/exit, optionally one task cancelled at its c-th suspension; calls of different tasks overlap "
    "as the scheduler decides. Oracle per call: events are exactly enter -> body -> exit on one context of each manager the call's function was decorated with (outermost first in, last out; an inner suppression shows the outer exit no exception), exit "
    "receives the body's exception object (or None), the caller gets the body's result / exception (None if "
    "suppressed), and for generator-based managers every call has a generator of its own. Non-trivial: >=2 calls "
    "overlapped in time or >=2 sequential calls in one task; distinct = distinct (scenario, interleaving)."
    " Extensions of rounds 9-12: stacked managers in either order, one function decorated separately by two managers, the decorating manager entered directly, class-based managers with the _recreate_cm hook, calls that do not bind."
)
COMPONENTS = COMPONENTS_AIO
ASSUMPTIONS = [
    "class-based ContextDecorator without _recreate_cm re-uses one instance by documentation; only pairing and routing are judged there",
]
PROBES = ("concurrent_overlap", "sequential_reuse", "body_raises", "suppressed", "cancel_in_body", "cancel_in_enter",
          "cancel_in_exit", "class_based", "generator_based", "decorated_method", "clashing_keyword_names", "falsy_exception",
          "ambient_exception", "enter_failed", "stacked_managers", "one_function_two_managers", "manager_entered_directly", "recreate_hook", "call_does_not_bind")


def gen(ch):
    sc = type("Scn", (), {})()
    # 0 generator-based 1 class-based 2 class-based with __aexit__ only (inherited __aenter__)
    # 3 class-based with the documented _recreate_cm hook: every copy serves one call at a time
    sc.kind = ch.weighted([4, 3, 1, 2])
    # (kind 3) the copies test false | the hook gives the manager itself while that is idle and a copy while it is in use
    sc.hook_falsy = ch.chance(1, 2)
    sc.hook_self_when_idle = ch.chance(1, 2)
    sc.suppress = ch.chance(1, 3)
    sc.susp = [ch.draw(3) for _ in range(3)]  # enter, body, exit
    sc.ntasks = ch.between(1, 3)
    # 0 return | 1 raise | 2 the call does not bind to the function's parameters (a TypeError before the body starts:
    # raised where the body would have run - inside the context)
    sc.calls = [[ch.weighted([9, 3, 1]) for _ in range(ch.between(1, 3))] for _ in range(sc.ntasks)]
    sc.cancel = ch.draw(sc.ntasks) if ch.chance(1, 3) else None
    sc.interrupt = ch.draw(4)
    sc.backend = pick_backend(ch, 1, 5)
    # the decorated function: a plain function or a method called through its instance; keyword arguments
    # whose names the decorator machinery may use itself; a body exception that tests false
    sc.as_method = ch.chance(1, 3)
    names = ("func", "cm", "self", "args", "kwds", "instance")
    sc.extra = {names[ch.draw(len(names))]: i for i in range(ch.draw(3))}
    if sc.as_method:
        sc.extra.pop("self", None)
    sc.falsy_exc = ch.chance(1, 4)
    # what a failing body raises: the injected fault | StopAsyncIteration | a bare Exception | a bare BaseException subclass
    sc.exc_kind = ch.weighted([5, 1, 1, 1])
    # the one manager instance decorates two functions; each call goes to one of them
    sc.which = [[ch.draw(2) for _ in p] for p in sc.calls]
    # the callers may be inside the handler of an unrelated exception while they call
    sc.ambient = ch.chance(1, 4)
    # entering the context fails for the n-th context created (None: never)
    sc.enter_fails = ch.draw(4) if ch.chance(1, 6) else None
    # 0: one manager object decorates two functions | 1: two manager objects stacked on each function (in either order)
    # 2: the one function decorated separately by two manager objects
    sc.layout = ch.weighted([3, 1, 1])
    if sc.layout == 1:
        sc.enter_fails = None
    # the decorating manager object is itself entered once, directly, by a further task after that many pauses
    sc.direct = ch.draw(4) if ch.chance(1, 5) else None
    if sc.kind == 3:
        sc.direct = None  # (a manager that serves one call at a time is not for the user to enter next to its calls)
    return sc


class BodyBase(BaseException):
    pass


class EnterFailed(Exception):
    pass


class FalsyFault(InjectedFault):
    """An exception object that tests false: an exception all the same"""

    def __len__(self):
        return 0


def execute(st, ctx):
    out = Outcome()
    sc = gen(st.scenario)
    sim = new_sim(st, interrupts=False, backend=sc.backend)
    set_interrupts(sim, (0, 0, 5, 2)[sc.interrupt])
    L = lib()
    log = []
    counter = [0]
    problems = []

    async def pause(n, who):
        for _ in range(n):
            await sim.suspend(PAUSE, None, who)

    def tag(exc):
        if exc is None:
            return None
        if isinstance(exc, CANCEL):
            return "cancel"
        return getattr(exc, "tag", type(exc).__name__)

    if sc.kind == 0:
        received = []

        # positional-only, *args, keyword-only and **opts at once: every re-created context must get the same arguments
        @L.contextmanager
        async def manager(label, /, *rest, mode="x", **opts):
            counter[0] += 1
            k = counter[0]
            received.append((label, rest, mode, tuple(sorted(opts.items()))))
            log.append(("enter", k, sim.current.id, None, None, label))
            await pause(sc.susp[0], "enter")
            if sc.enter_fails is not None and k == sc.enter_fails + 1:
                raise EnterFailed("enter%d" % k)
            log.append(("entered", k, sim.current.id, None, None, label))
            try:
                yield k
            except BaseException as err:
                log.append(("exit", k, sim.current.id, tag(err), id(err), label))
                if not isinstance(err, CANCEL):
                    await pause(sc.susp[2], "exit")
                if sc.suppress and isinstance(err, Exception):
                    return
                raise
            else:
                log.append(("exit", k, sim.current.id, None, None, label))
                await pause(sc.susp[2], "exit")

        decorators = [manager("m0", 1, 2, mode="y", retries=3, func=4), manager("m1", 1, 2, mode="y", retries=3, func=4)]
        expect_args = ((1, 2), "y", (("func", 4), ("retries", 3)))
    else:
        class Manager(L.ContextDecorator):
            def __init__(self, label):
                self.label = label

            async def __aenter__(self):
                counter[0] += 1
                k = counter[0]
                log.append(("enter", k, sim.current.id, None, None, self.label))
                await pause(sc.susp[0], "enter")
                if sc.enter_fails is not None and k == sc.enter_fails + 1:
                    raise EnterFailed("enter%d" % k)
                log.append(("entered", k, sim.current.id, None, None, self.label))
                return k

            async def __aexit__(self, et, ev, tb):
                log.append(("exit", None, sim.current.id, tag(ev), id(ev) if ev is not None else None, self.label))
                if not isinstance(ev, CANCEL):
                    await pause(sc.susp[2], "exit")
                return bool(sc.suppress and isinstance(ev, Exception))

        if sc.kind == 2:
            # an exit-only context: entering is what the base class provides (it gives the manager itself)
            del Manager.__aenter__
        if sc.kind == 3:
            class Manager(Manager):  # noqa: F811
                """Serves one call at a time; ``_recreate_cm`` is the documented way to get one per call"""

                def __init__(self, label):
                    self.label = label
                    self.in_use = False

                def _recreate_cm(self):
                    if sc.hook_self_when_idle and not self.in_use:
                        return self
                    return type(self)(self.label)

                if sc.hook_falsy:
                    def __len__(self):
                        return 0

                async def __aenter__(self):
                    if self.in_use:
                        problems.append(("context_object", None, "a manager object that serves one call at a time was entered while in use"))
                    self.in_use = True
                    try:
                        return await super().__aenter__()
                    except BaseException:
                        self.in_use = False
                        raise

                async def __aexit__(self, et, ev, tb):
                    try:
                        return await super().__aexit__(et, ev, tb)
                    finally:
                        self.in_use = False

        decorators = [Manager("m0"), Manager("m1")]

    raised = {}
    fault_type = FalsyFault if sc.falsy_exc else InjectedFault

    async def body_impl(call_id, fails, extra):
        log.append(("body", call_id, sim.current.id))
        if extra != sc.extra:
            problems.append(("arguments", call_id, repr(extra)))
        await pause(sc.susp[1], "body")
        if fails:
            if sc.exc_kind == 1:
                err = StopAsyncIteration("body%r" % (call_id,))
            elif sc.exc_kind == 2:
                err = Exception("body%r" % (call_id,))
            elif sc.exc_kind == 3:
                err = BodyBase("body%r" % (call_id,))
            else:
                err = fault_type("body%r" % (call_id,))
            raised[call_id] = err
            raise err
        return ("result", call_id)

    d0, d1 = decorators
    if sc.layout == 0:
        wrap_a = wrap_b = d0
        chains = (["m0"], ["m0"])
    elif sc.layout == 1:
        def wrap_a(fn):
            return d0(d1(fn))

        def wrap_b(fn):
            return d1(d0(fn))

        chains = (["m0", "m1"], ["m1", "m0"])
    else:
        wrap_a, wrap_b = d0, d1
        chains = (["m0"], ["m1"])

    if sc.as_method:
        async def raw_a(self, call_id, fails, /, **extra):
            if self is not service:
                problems.append(("self", call_id, repr(self)))
            return await body_impl(call_id, fails, extra)

        async def raw_b(self, call_id, fails, /, **extra):
            if self is not service:
                problems.append(("self", call_id, repr(self)))
            return await body_impl(call_id, fails, extra)

        if sc.layout == 2:
            raw_b = raw_a

        class Service:
            body = wrap_a(raw_a)
            body2 = wrap_b(raw_b)

        service = Service()
        bodies = (service.body, service.body2)
    else:
        async def body(call_id, fails, /, **extra):
            return await body_impl(call_id, fails, extra)

        async def body_b(call_id, fails, /, **extra):
            return await body_impl(call_id, fails, extra)

        if sc.layout == 2:
            body_b = body
        bodies = (wrap_a(body), wrap_b(body_b))

    results = {}

    async def caller(ti, plan):
        for n, fails in enumerate(plan):
            call_id = (ti, n)
            log.append(("call", call_id, sim.current.id))
            try:
                if fails == 2:
                    try:
                        results[call_id] = ("ok", await bodies[sc.which[ti][n]](call_id, **sc.extra))
                    except TypeError as err:
                        results[call_id] = ("raised", err)
                        raised[call_id] = err
                else:
                    results[call_id] = ("ok", await bodies[sc.which[ti][n]](call_id, fails, **sc.extra))
            except (InjectedFault, StopAsyncIteration, BodyBase) as err:
                results[call_id] = ("raised", err)
            except EnterFailed as err:
                results[call_id] = ("enter_failed", err)
            except Exception as err:
                if sc.exc_kind != 2 or type(err) is not Exception:
                    raise
                results[call_id] = ("raised", err)
            except CANCEL:
                results[call_id] = ("cancelled", None)
                raise
            log.append(("returned", call_id, sim.current.id))

    async def caller_in_handler(ti, plan):
        try:
            raise LookupError("unrelated, being handled by the caller")
        except LookupError:
            await caller(ti, plan)

    direct_log = []

    async def direct_user():
        await pause(sc.direct, "direct")
        try:
            async with d0:
                direct_log.append("inside")
                await pause(1, "direct")
        except EnterFailed:
            direct_log.append("enter_failed")
        direct_log.append("done")

    spawn = caller_in_handler if sc.ambient else caller
    tasks = [sim.spawn(spawn(i, plan), "caller%d" % i) for i, plan in enumerate(sc.calls)]
    if sc.direct is not None:
        tasks.append(sim.spawn(direct_user(), "direct"))
    if sc.cancel is not None:
        sim.cancel_plan[tasks[sc.cancel].id] = 1 + st.faults.draw(8)
    run_sim(sim)
    sig = (("generator", "class", "class_exit_only", "class_with_recreate_hook")[sc.kind], "suppress" if sc.suppress else "propagate")

    def describe():
        return {"backend": sc.backend, "manager": sig[0], "suppress": sc.suppress, "decorated": "method" if sc.as_method else "function",
                "keyword_arguments": sc.extra, "body_exception_tests_false": sc.falsy_exc,
                "body_raises": ("injected fault", "StopAsyncIteration", "Exception", "BaseException subclass")[sc.exc_kind],
                "which_of_two_decorated_functions": sc.which, "inside_handler_of_unrelated_exception": sc.ambient,
                "entering_fails_for_context": sc.enter_fails,
                "layout": ("one manager on two functions", "two managers stacked, in either order", "one function decorated separately by two managers")[sc.layout],
                "manager_also_entered_directly_after_pauses": sc.direct, "suspensions": sc.susp, "calls": sc.calls,
                "cancel": {"task": sc.cancel, "fired_at": sim.cancel_fired_at} if sc.cancel is not None else None,
                "log": [repr(e[:4]) for e in log], "results": {repr(k): repr(v) for k, v in results.items()},
                "interleaving": [(t >> 2, ("pause", "sleep", "lock_wait", "done")[t & 3]) for t in sim.trace][:120]}

    if sim.deadlock:
        out.violate("C15.deadlock", sig, describe())
    elif sim.capped:
        out.violate("C15.calls_do_not_terminate", sig, dict(describe(), steps=sim.seq))
    elif not sim.capped:
        for t in tasks:
            if t.error is not None and t.error is not t.cancelled_with:
                out.violate("C15.task_failed", sig + (type(t.error).__name__,), dict(describe(), error=repr(t.error)))
        for prob in problems[:1]:
            out.violate("C15.body_got_other_" + prob[0], sig, dict(describe(), call=prob[1], got=prob[2]))
        if sc.direct is not None and direct_log not in (["inside", "done"], ["enter_failed", "done"]):
            out.violate("C15.direct_use_of_the_manager_disturbed", sig, dict(describe(), direct=direct_log))
        if sc.kind == 0 and any(r[1:] != expect_args or r[0] not in ("m0", "m1") for r in received):
            out.violate("C15.recreated_manager_got_other_arguments", sig,
                        dict(describe(), received=[repr(r) for r in received], expected=repr(expect_args)))
        used = {}
        for ti, task in enumerate(tasks):
            events = [e for e in log if e[2] == task.id]
            # split per call
            cur = None
            per_call = {}
            for e in events:
                if e[0] == "call":
                    cur = e[1]
                    per_call[cur] = []
                elif cur is not None:
                    per_call[cur].append(e)
            for call_id, evs in per_call.items():
                res = results.get(call_id)
                chain = chains[sc.which[call_id[0]][call_id[1]]]
                kinds = [e[0] for e in evs if e[0] in ("enter", "body", "exit")]
                steps = [(e[0], e[5] if e[0] != "body" else None) for e in evs if e[0] in ("enter", "body", "exit")]
                cancelled = res is not None and res[0] == "cancelled"
                if res is None:
                    out.violate("C15.call_never_finished", sig, dict(describe(), call=call_id))
                    continue
                n_entered = sum(1 for e in evs if e[0] == "entered") if sc.kind != 2 else (len(chain) if "body" in kinds else 0)
                if sc.kind == 2 and sc.calls[call_id[0]][call_id[1]] == 2:
                    n_entered = kinds.count("exit")  # no body event to go by: the (silent) enters are the exits seen
                if cancelled:
                    # whatever was entered must have been exited, with the cancellation - and nothing else
                    if n_entered and kinds.count("exit") != n_entered:
                        out.violate("C15.cancelled_call_not_exited", sig, dict(describe(), call=call_id))
                    elif not n_entered and sc.kind != 2 and "exit" in kinds:
                        out.violate("C15.exited_without_having_entered", sig + ("cancelled",), dict(describe(), call=call_id))
                    elif sc.kind != 2 and [l for k, l in steps if k == "enter"] != chain[:kinds.count("enter")]:
                        out.violate("C15.entered_other_context", sig + ("cancelled",), dict(describe(), call=call_id))
                    continue
                if res[0] == "enter_failed":
                    # entering failed: no body, no exit, the caller gets that failure
                    if steps != [("enter", chain[0])]:
                        out.violate("C15.exited_without_having_entered", sig + (",".join(kinds),), dict(describe(), call=call_id))
                    continue
                fails = sc.calls[call_id[0]][call_id[1]]
                expected = [("enter", l) for l in chain] if sc.kind != 2 else []
                expected += ([("body", None)] if fails != 2 else []) + [("exit", l) for l in reversed(chain)]
                if fails == 2 and len(chain) > 1:
                    # stacked: the innermost wrapper is what fails to call the function; the contexts around it are entered
                    pass
                if steps != expected:
                    clause = "C15.not_enter_body_exit" if kinds != [k for k, _ in expected] else "C15.entered_other_context"
                    out.violate(clause, sig + (",".join(kinds),), dict(describe(), call=call_id, expected=repr(expected), got=repr(steps)))
                    continue
                enters = [e for e in evs if e[0] == "enter"]
                exits = [e for e in evs if e[0] == "exit"]  # innermost first
                if sc.kind == 0:
                    for enter, exit_ in zip(enters, reversed(exits)):
                        if exit_[1] != enter[1]:
                            out.violate("C15.exit_on_other_context", sig, dict(describe(), call=call_id))
                        if enter[1] in used:
                            out.violate("C15.generator_shared_between_calls", sig, dict(describe(), call=call_id))
                        used[enter[1]] = call_id
                if fails:
                    err = raised.get(call_id)
                    if fails == 2 and err is None and sc.suppress:
                        err = TypeError("(suppressed: the object itself is unknown)")
                        if exits and exits[0][3] == "TypeError":
                            exits = [exits[0][:4] + (id(err),) + exits[0][5:]] + exits[1:]
                    suppressed = sc.suppress and isinstance(err, Exception)  # the managers suppress Exception, nothing wider
                    for n, exit_ in enumerate(exits):
                        want = None if (suppressed and n > 0) else id(err)
                        if exit_[4] != want:
                            out.violate("C15.exit_got_wrong_exception", sig, dict(describe(), call=call_id))
                    if suppressed:
                        if res != ("ok", None):
                            out.violate("C15.suppressed_call_result_wrong", sig, dict(describe(), call=call_id))
                    elif res[0] != "raised" or res[1] is not err:
                        out.violate("C15.exception_not_routed_to_caller", sig, dict(describe(), call=call_id))
                else:
                    if any(exit_[3] is not None for exit_ in exits):
                        out.violate("C15.exit_got_wrong_exception", sig, dict(describe(), call=call_id))
                    if res != ("ok", ("result", call_id)):
                        out.violate("C15.result_not_routed_to_caller", sig, dict(describe(), call=call_id))
    # probes
    spans = {}
    for i, e in enumerate(log):
        if e[0] == "call":
            spans[e[1]] = [i, None]
        elif e[0] == "returned":
            spans[e[1]][1] = i
    sp = [s for s in spans.values() if s[1] is not None]
    overlap = any(a[0] < b[0] < a[1] for a in sp for b in sp if a is not b)
    if overlap:
        out.probes["concurrent_overlap"] = 1
    if any(len(p) >= 2 for p in sc.calls):
        out.probes["sequential_reuse"] = 1
    if any(f for p in sc.calls for f in p):
        out.probes["body_raises"] = 1
        out.faults["body_raises"] = 1
        out.fault_free = False
        if sc.suppress:
            out.probes["suppressed"] = 1
    if sim.cancel_sent is not None and sim.cancel_fired_at:
        out.faults["cancel"] = 1
        out.fault_free = False
        where = sim.cancel_fired_at[2]
        if where in ("body", "enter", "exit"):
            out.probes["cancel_in_" + where] = 1
    out.probes["class_based" if sc.kind else "generator_based"] = 1
    if sc.kind == 3:
        out.probes["recreate_hook"] = 1
    if sc.ambient:
        out.probes["ambient_exception"] = 1
    if any(r[0] == "enter_failed" for r in results.values()):
        out.probes["enter_failed"] = 1
        out.faults["enter_raises"] = 1
    if sc.as_method:
        out.probes["decorated_method"] = 1
    if sc.layout:
        out.probes[("stacked_managers", "one_function_two_managers")[sc.layout - 1]] = 1
    if any(f == 2 for p in sc.calls for f in p):
        out.probes["call_does_not_bind"] = 1
    if sc.direct is not None and "inside" in direct_log:
        out.probes["manager_entered_directly"] = 1
    if sc.extra:
        out.probes["clashing_keyword_names"] = 1
    if sc.falsy_exc and any(f for p in sc.calls for f in p):
        out.probes["falsy_exception"] = 1
    out.nontrivial = overlap or any(len(p) >= 2 for p in sc.calls)
    out.shape = (sc.backend, sc.layout, sc.direct, sc.kind, (sc.hook_falsy, sc.hook_self_when_idle) if sc.kind == 3 else None, sc.suppress, sc.ambient, sc.enter_fails, sc.as_method, tuple(sorted(sc.extra)), sc.falsy_exc, sc.exc_kind,
                 tuple(tuple(w) for w in sc.which), tuple(sc.susp), tuple(tuple(p) for p in sc.calls), sc.cancel, hash(tuple(sim.trace)))
    if ctx.want_sample:
        out.sample = describe()
    if ctx.want_log:
        out.log = [[e[:4] for e in log], sim.trace]
    return finish_outcome(out, st, sim, ctx)


def explore(st, ctx):
    return [execute(st, ctx)]
