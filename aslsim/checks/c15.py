"""
C15 - context managers as decorators wrap every call in a fresh, paired context.

A coroutine function decorated with a contextmanager-created manager (or a class based
ContextDecorator) is called by 1..3 tasks, 1..3 times each; enter, body and exit suspend; bodies
return, raise (suppressed or not) or are cancelled at the c-th suspension.
"""

from ..actors import InjectedFault
from ..loop import PAUSE, CANCEL
from ..runner import Outcome
from ..tools import lib
from .common import set_interrupts, COMPONENTS_BASE, COMPONENTS_AIO, run_sim, new_sim, finish_outcome, pick_backend

PID = "C15"
LEVEL = "exploration"
BUDGET = {"quick": 250000, "thorough": 5000000}
RULE = (
    "each run draws a manager kind (generator-based via contextmanager / class-based ContextDecorator), whether "
    "it suppresses, the decorated coroutine function (plain or a method called through its instance, called with keyword "
    "arguments named like the machinery's own parameters, raising an exception object that may test false), 1..3 caller tasks with 1..3 sequential calls each (body returns or raises), suspension counts "
    "for enter/body/exit, optionally one task cancelled at its c-th suspension; calls of different tasks overlap "
    "as the scheduler decides. Oracle per call: events are exactly enter -> body -> exit on one context, exit "
    "receives the body's exception object (or None), the caller gets the body's result / exception (None if "
    "suppressed), and for generator-based managers every call has a generator of its own. Non-trivial: >=2 calls "
    "overlapped in time or >=2 sequential calls in one task; distinct = distinct (scenario, interleaving)."
)
COMPONENTS = COMPONENTS_AIO
ASSUMPTIONS = [
    "class-based ContextDecorator without _recreate_cm re-uses one instance by documentation; only pairing and routing are judged there",
]
PROBES = ("concurrent_overlap", "sequential_reuse", "body_raises", "suppressed", "cancel_in_body", "cancel_in_enter",
          "cancel_in_exit", "class_based", "generator_based", "decorated_method", "clashing_keyword_names", "falsy_exception",
          "ambient_exception", "enter_failed")


def gen(ch):
    sc = type("Scn", (), {})()
    sc.kind = ch.weighted([4, 3, 1])  # 0 generator-based 1 class-based 2 class-based with __aexit__ only (inherited __aenter__)
    sc.suppress = ch.chance(1, 3)
    sc.susp = [ch.draw(3) for _ in range(3)]  # enter, body, exit
    sc.ntasks = ch.between(1, 3)
    sc.calls = [[ch.weighted([3, 1]) for _ in range(ch.between(1, 3))] for _ in range(sc.ntasks)]  # 0 return 1 raise
    sc.cancel = ch.draw(sc.ntasks) if ch.chance(1, 3) else None
    sc.interrupt = ch.draw(4)
    sc.backend = pick_backend(ch, 1, 5)
    # the decorated function: a plain function or a method called through its instance; keyword arguments
    # whose names the decorator machinery may use itself; a body exception that tests false
    sc.as_method = ch.chance(1, 3)
    names = ("func", "cm", "self", "args", "kwds", "instance")
    sc.extra = {names[ch.draw(len(names))]: i for i in range(ch.draw(3))}
    if sc.as_method:
        sc.extra.pop("self", None)
    sc.falsy_exc = ch.chance(1, 4)
    # what a failing body raises: the injected fault | StopAsyncIteration | a bare Exception | a bare BaseException subclass
    sc.exc_kind = ch.weighted([5, 1, 1, 1])
    # the one manager instance decorates two functions; each call goes to one of them
    sc.which = [[ch.draw(2) for _ in p] for p in sc.calls]
    # the callers may be inside the handler of an unrelated exception while they call
    sc.ambient = ch.chance(1, 4)
    # entering the context fails for the n-th context created (None: never)
    sc.enter_fails = ch.draw(4) if ch.chance(1, 6) else None
    return sc


class BodyBase(BaseException):
    pass


class EnterFailed(Exception):
    pass


class FalsyFault(InjectedFault):
    """An exception object that tests false: an exception all the same"""

    def __len__(self):
        return 0


def execute(st, ctx):
    out = Outcome()
    sc = gen(st.scenario)
    sim = new_sim(st, interrupts=False, backend=sc.backend)
    set_interrupts(sim, (0, 0, 5, 2)[sc.interrupt])
    L = lib()
    log = []
    counter = [0]

    async def pause(n, who):
        for _ in range(n):
            await sim.suspend(PAUSE, None, who)

    def tag(exc):
        if exc is None:
            return None
        if isinstance(exc, CANCEL):
            return "cancel"
        return getattr(exc, "tag", type(exc).__name__)

    if sc.kind == 0:
        received = []

        # positional-only, *args, keyword-only and **opts at once: every re-created context must get the same arguments
        @L.contextmanager
        async def manager(label, /, *rest, mode="x", **opts):
            counter[0] += 1
            k = counter[0]
            received.append((label, rest, mode, tuple(sorted(opts.items()))))
            log.append(("enter", k, sim.current.id))
            await pause(sc.susp[0], "enter")
            if sc.enter_fails is not None and k == sc.enter_fails + 1:
                raise EnterFailed("enter%d" % k)
            log.append(("entered", k, sim.current.id))
            try:
                yield k
            except BaseException as err:
                log.append(("exit", k, sim.current.id, tag(err), id(err)))
                if not isinstance(err, CANCEL):
                    await pause(sc.susp[2], "exit")
                if sc.suppress and isinstance(err, Exception):
                    return
                raise
            else:
                log.append(("exit", k, sim.current.id, None, None))
                await pause(sc.susp[2], "exit")

        decorator = manager("ctx", 1, 2, mode="y", retries=3, func=4)
        expect_args = ("ctx", (1, 2), "y", (("func", 4), ("retries", 3)))
    else:
        class Manager(L.ContextDecorator):
            async def __aenter__(self):
                counter[0] += 1
                k = counter[0]
                log.append(("enter", k, sim.current.id))
                await pause(sc.susp[0], "enter")
                if sc.enter_fails is not None and k == sc.enter_fails + 1:
                    raise EnterFailed("enter%d" % k)
                log.append(("entered", k, sim.current.id))
                return k

            async def __aexit__(self, et, ev, tb):
                log.append(("exit", None, sim.current.id, tag(ev), id(ev) if ev is not None else None))
                if not isinstance(ev, CANCEL):
                    await pause(sc.susp[2], "exit")
                return bool(sc.suppress and isinstance(ev, Exception))

        if sc.kind == 2:
            # an exit-only context: entering is what the base class provides (it gives the manager itself)
            del Manager.__aenter__
        decorator = Manager()

    raised = {}
    problems = []
    fault_type = FalsyFault if sc.falsy_exc else InjectedFault

    async def body_impl(call_id, fails, extra):
        log.append(("body", call_id, sim.current.id))
        if extra != sc.extra:
            problems.append(("arguments", call_id, repr(extra)))
        await pause(sc.susp[1], "body")
        if fails:
            if sc.exc_kind == 1:
                err = StopAsyncIteration("body%r" % (call_id,))
            elif sc.exc_kind == 2:
                err = Exception("body%r" % (call_id,))
            elif sc.exc_kind == 3:
                err = BodyBase("body%r" % (call_id,))
            else:
                err = fault_type("body%r" % (call_id,))
            raised[call_id] = err
            raise err
        return ("result", call_id)

    if sc.as_method:
        class Service:
            @decorator
            async def body(self, call_id, fails, /, **extra):
                if self is not service:
                    problems.append(("self", call_id, repr(self)))
                return await body_impl(call_id, fails, extra)

            @decorator
            async def body2(self, call_id, fails, /, **extra):
                if self is not service:
                    problems.append(("self", call_id, repr(self)))
                return await body_impl(call_id, fails, extra)

        service = Service()
        bodies = (service.body, service.body2)
    else:
        @decorator
        async def body(call_id, fails, /, **extra):
            return await body_impl(call_id, fails, extra)

        @decorator
        async def body_b(call_id, fails, /, **extra):
            return await body_impl(call_id, fails, extra)

        bodies = (body, body_b)

    results = {}

    async def caller(ti, plan):
        for n, fails in enumerate(plan):
            call_id = (ti, n)
            log.append(("call", call_id, sim.current.id))
            try:
                results[call_id] = ("ok", await bodies[sc.which[ti][n]](call_id, fails, **sc.extra))
            except (InjectedFault, StopAsyncIteration, BodyBase) as err:
                results[call_id] = ("raised", err)
            except EnterFailed as err:
                results[call_id] = ("enter_failed", err)
            except Exception as err:
                if sc.exc_kind != 2 or type(err) is not Exception:
                    raise
                results[call_id] = ("raised", err)
            except CANCEL:
                results[call_id] = ("cancelled", None)
                raise
            log.append(("returned", call_id, sim.current.id))

    async def caller_in_handler(ti, plan):
        try:
            raise LookupError("unrelated, being handled by the caller")
        except LookupError:
            await caller(ti, plan)

    spawn = caller_in_handler if sc.ambient else caller
    tasks = [sim.spawn(spawn(i, plan), "caller%d" % i) for i, plan in enumerate(sc.calls)]
    if sc.cancel is not None:
        sim.cancel_plan[tasks[sc.cancel].id] = 1 + st.faults.draw(8)
    run_sim(sim)
    sig = (("generator", "class", "class_exit_only")[sc.kind], "suppress" if sc.suppress else "propagate")

    def describe():
        return {"backend": sc.backend, "manager": sig[0], "suppress": sc.suppress, "decorated": "method" if sc.as_method else "function",
                "keyword_arguments": sc.extra, "body_exception_tests_false": sc.falsy_exc,
                "body_raises": ("injected fault", "StopAsyncIteration", "Exception", "BaseException subclass")[sc.exc_kind],
                "which_of_two_decorated_functions": sc.which, "inside_handler_of_unrelated_exception": sc.ambient,
                "entering_fails_for_context": sc.enter_fails, "suspensions": sc.susp, "calls": sc.calls,
                "cancel": {"task": sc.cancel, "fired_at": sim.cancel_fired_at} if sc.cancel is not None else None,
                "log": [repr(e[:4]) for e in log], "results": {repr(k): repr(v) for k, v in results.items()},
                "interleaving": [(t >> 2, ("pause", "sleep", "lock_wait", "done")[t & 3]) for t in sim.trace][:120]}

    if sim.deadlock:
        out.violate("C15.deadlock", sig, describe())
    elif sim.capped:
        out.violate("C15.calls_do_not_terminate", sig, dict(describe(), steps=sim.seq))
    elif not sim.capped:
        for t in tasks:
            if t.error is not None and t.error is not t.cancelled_with:
                out.violate("C15.task_failed", sig + (type(t.error).__name__,), dict(describe(), error=repr(t.error)))
        for prob in problems[:1]:
            out.violate("C15.body_got_other_" + prob[0], sig, dict(describe(), call=prob[1], got=prob[2]))
        if sc.kind == 0 and any(r != expect_args for r in received):
            out.violate("C15.recreated_manager_got_other_arguments", sig,
                        dict(describe(), received=[repr(r) for r in received], expected=repr(expect_args)))
        used = {}
        for ti, task in enumerate(tasks):
            events = [e for e in log if e[2] == task.id]
            # split per call
            cur = None
            per_call = {}
            for e in events:
                if e[0] == "call":
                    cur = e[1]
                    per_call[cur] = []
                elif cur is not None:
                    per_call[cur].append(e)
            for call_id, evs in per_call.items():
                res = results.get(call_id)
                kinds = [e[0] for e in evs if e[0] in ("enter", "body", "exit")]
                cancelled = res is not None and res[0] == "cancelled"
                if res is None:
                    out.violate("C15.call_never_finished", sig, dict(describe(), call=call_id))
                    continue
                entered = any(e[0] == "entered" for e in evs) or (sc.kind == 2 and "body" in kinds)
                if cancelled:
                    # whatever was entered must have been exited, with the cancellation - and nothing else
                    if entered and kinds.count("exit") != 1:
                        out.violate("C15.cancelled_call_not_exited", sig, dict(describe(), call=call_id))
                    elif not entered and sc.kind != 2 and "exit" in kinds:
                        out.violate("C15.exited_without_having_entered", sig + ("cancelled",), dict(describe(), call=call_id))
                    continue
                if res[0] == "enter_failed":
                    # entering failed: no body, no exit, the caller gets that failure
                    if kinds != ["enter"]:
                        out.violate("C15.exited_without_having_entered", sig + (",".join(kinds),), dict(describe(), call=call_id))
                    continue
                if sc.kind == 2:
                    if kinds != ["body", "exit"]:
                        out.violate("C15.not_enter_body_exit", sig + (",".join(kinds),), dict(describe(), call=call_id))
                        continue
                    kinds = ["enter"] + kinds
                    evs = [("enter", None, None)] + list(evs)
                if kinds != ["enter", "body", "exit"]:
                    out.violate("C15.not_enter_body_exit", sig + (",".join(kinds),), dict(describe(), call=call_id))
                    continue
                enter = [e for e in evs if e[0] == "enter"][0]
                exit_ = [e for e in evs if e[0] == "exit"][0]
                if sc.kind == 0:
                    if exit_[1] != enter[1]:
                        out.violate("C15.exit_on_other_context", sig, dict(describe(), call=call_id))
                    if enter[1] in used:
                        out.violate("C15.generator_shared_between_calls", sig, dict(describe(), call=call_id))
                    used[enter[1]] = call_id
                fails = sc.calls[call_id[0]][call_id[1]]
                if fails:
                    err = raised.get(call_id)
                    if exit_[4] != id(err):
                        out.violate("C15.exit_got_wrong_exception", sig, dict(describe(), call=call_id))
                    if sc.suppress and isinstance(err, Exception):  # the managers suppress Exception, nothing wider
                        if res != ("ok", None):
                            out.violate("C15.suppressed_call_result_wrong", sig, dict(describe(), call=call_id))
                    elif res[0] != "raised" or res[1] is not err:
                        out.violate("C15.exception_not_routed_to_caller", sig, dict(describe(), call=call_id))
                else:
                    if exit_[3] is not None:
                        out.violate("C15.exit_got_wrong_exception", sig, dict(describe(), call=call_id))
                    if res != ("ok", ("result", call_id)):
                        out.violate("C15.result_not_routed_to_caller", sig, dict(describe(), call=call_id))
    # probes
    spans = {}
    for i, e in enumerate(log):
        if e[0] == "call":
            spans[e[1]] = [i, None]
        elif e[0] == "returned":
            spans[e[1]][1] = i
    sp = [s for s in spans.values() if s[1] is not None]
    overlap = any(a[0] < b[0] < a[1] for a in sp for b in sp if a is not b)
    if overlap:
        out.probes["concurrent_overlap"] = 1
    if any(len(p) >= 2 for p in sc.calls):
        out.probes["sequential_reuse"] = 1
    if any(f for p in sc.calls for f in p):
        out.probes["body_raises"] = 1
        out.faults["body_raises"] = 1
        out.fault_free = False
        if sc.suppress:
            out.probes["suppressed"] = 1
    if sim.cancel_sent is not None and sim.cancel_fired_at:
        out.faults["cancel"] = 1
        out.fault_free = False
        where = sim.cancel_fired_at[2]
        if where in ("body", "enter", "exit"):
            out.probes["cancel_in_" + where] = 1
    out.probes["class_based" if sc.kind else "generator_based"] = 1
    if sc.ambient:
        out.probes["ambient_exception"] = 1
    if any(r[0] == "enter_failed" for r in results.values()):
        out.probes["enter_failed"] = 1
        out.faults["enter_raises"] = 1
    if sc.as_method:
        out.probes["decorated_method"] = 1
    if sc.extra:
        out.probes["clashing_keyword_names"] = 1
    if sc.falsy_exc and any(f for p in sc.calls for f in p):
        out.probes["falsy_exception"] = 1
    out.nontrivial = overlap or any(len(p) >= 2 for p in sc.calls)
    out.shape = (sc.backend, sc.kind, sc.suppress, sc.ambient, sc.enter_fails, sc.as_method, tuple(sorted(sc.extra)), sc.falsy_exc, sc.exc_kind,
                 tuple(tuple(w) for w in sc.which), tuple(sc.susp), tuple(tuple(p) for p in sc.calls), sc.cancel, hash(tuple(sim.trace)))
    if ctx.want_sample:
        out.sample = describe()
    if ctx.want_log:
        out.log = [[e[:4] for e in log], sim.trace]
    return finish_outcome(out, st, sim, ctx)


def explore(st, ctx):
    return [execute(st, ctx)]
