"""
C16 - groupby matches itertools.groupby under every pattern of consuming groups.

An operation history over {advance the groupby, advance group handle i (any previously returned
group, stale ones included)} runs against asyncstdlib.groupby inside the simulator (suspending
stream and key) and against itertools.groupby over the sync twin; results are compared op by op
and the complete pull/call logs at the end.
"""

import itertools

from ..actors import World, AwaitableItem, Anything, ident, make_async_source, make_ref_source, make_async_fn, make_ref_fn, is_source_item
from ..runner import Outcome
from ..tools import draw_cfg, Gen, lib
from ..tooldiff import normalise, first_diff
from .common import COMPONENTS_BASE, run_sim, new_sim, finish_outcome

PID = "C16"
LEVEL = "exploration"
BUDGET = {"quick": 250000, "thorough": 5000000}
RULE = (
    "each run draws 1..2 co-tenant scenarios: 0..10 items over 1..4 keys (runs re-occurring), key absent / "
    "sync / async (5 callable flavours), a logging source flavour with suspensions, and a history of <=15 ops "
    "over {advance groupby, advance group -i (i-th most recent group, stale included)}; oracle: "
    "itertools.groupby under the same history - per op the returned key / item (identity) / stop, and the "
    "normalised pull/call event log. Non-trivial: >=2 groups returned and >=1 advance of a group that is not "
    "the newest or is partially consumed; distinct = distinct (items, key fn, history) by 64-bit hash."
    " Extensions of rounds 9-12: loops over a group left at once, wildcard-equal and Ellipsis items."
    " Round 13: key=None given explicitly, keys passed by keyword, awaitable objects as keys."
)
COMPONENTS = COMPONENTS_BASE
ASSUMPTIONS = [
    "reference = itertools.groupby of CPython 3.12.1 on the same objects",
    "keys have reflexive equality (stated in the property); history is sequential (concurrent advancing is documented as unsafe)",
]
PROBES = ("none_key", "stale_group_advanced", "group_partially_consumed_then_skipped", "key_async", "groupby_exhausted",
          "same_key_reoccurs")


def gen(ch, cfg, prefix):
    sc = type("Scn", (), {})()
    g = Gen(ch, cfg, prefix)
    cfg.max_len = (10, 6, 3, 8)[ch.draw(4)]
    items = g.items()
    sc.key = g.keyfn()
    if sc.key is not None and ch.chance(1, 6):
        # keys that are equal when close together (not transitive) and only comparable among themselves; the items'
        # own keys are spread out so that chains a~b~c with a!~c occur
        sc.key.kind = "tol"
        for n_, it in enumerate(items):
            if type(it).__name__ == "Item":
                it.key = it.key * 2 + (n_ % 2)
    elif sc.key is not None and ch.chance(1, 8):
        sc.key.kind = "idobj"  # keys equal only to themselves
    elif sc.key is not None and ch.chance(1, 8):
        # a key that depends on how often it has been called (the chunking idiom with a counter)
        sc.key.kind = "feed"
        sc.key.param = tuple(i // (2 + len(items) % 2) for i in range(len(items) + 3))
    elif sc.key is not None and ch.chance(1, 4):
        sc.key.kind = "divnone"  # a key function for which None is a legitimate key
    elif sc.key is None and items and ch.chance(1, 4):
        for _ in range(ch.between(1, 3)):
            items[ch.draw(len(items))] = None  # None items are their own (equal) keys
    elif sc.key is None and items and ch.chance(1, 4):
        # items that are awaitable objects (futures passed along as data): each is its own key, nobody awaits them
        for n in range(ch.between(1, 3)):
            pos = 0 if n == 0 and ch.chance(1, 2) else ch.draw(len(items))
            items[pos] = AwaitableItem(("aw", pos))
    if items and (sc.key is None or sc.key.kind in ("const", "feed", "uidkey")) and ch.chance(1, 6):
        # an item that claims to be equal to everything (a wildcard object): data like any other - the library's own
        # markers are recognised by identity
        pos = ch.draw(len(items))
        items[pos] = Anything(("any", pos)) if ch.chance(1, 2) else ...  # (or the Ellipsis singleton: data as well)
    sc.key_by_keyword = ch.chance(1, 2)
    sc.none_key_form = ch.draw(3)
    if sc.key is not None and sc.key.kind == "keyval" and len(items) >= 2 and ch.chance(1, 6):
        # the key of some items is an awaitable object (a job handle, grouped by identity): a key like any other, nobody
        # awaits it (not at the first position: a plain function whose *first* result is awaitable counts as asynchronous)
        for n in range(ch.between(1, 2)):
            pos = ch.between(1, len(items) - 1)
            items[pos] = AwaitableItem(("awk", pos))
    sc.src = g.src(items)
    if ch.chance(1, 8):
        # a plain container (can be iterated again from the start): only what the consumer sees is compared then
        sc.src.flavour, sc.src.suspend = ("list", "tuple")[ch.draw(2)], ()
    ops = []
    for _ in range(ch.between(1, 15)):
        # advance the groupby | advance group -i | close group -i | drain group -i through a library consumer (list)
        # ... | drop the last reference to the groupby object itself (the groups handed out stay in use)
        # ... | take one item of group -i with an ``async for`` loop that is left at once (``break``)
        ops.append((ch.weighted([12, 18, 2, 2, 1, 3]), ch.draw(3)))
    sc.ops = ops
    return sc


async def history_async(sc, world, results):
    src = make_async_source(world, sc.src)
    fn = make_async_fn(world, sc.key) if sc.key is not None else None
    L = lib()
    if fn is not None:
        gb = L.groupby(src.obj, fn.obj) if not sc.key_by_keyword else L.groupby(src.obj, key=fn.obj)
    else:
        # no key: the argument left out, or None given explicitly (by position or by keyword) - all the same
        gb = (L.groupby(src.obj), L.groupby(src.obj, None), L.groupby(src.obj, key=None))[sc.none_key_form]
    groups = []
    log = world.log
    for n, (op, i) in enumerate(sc.ops):
        log.append(("op", n))
        if op == 4:
            # nobody refers to the groupby any more; its groups are still good for the rest of their runs
            gb = None
            results.append(("dropped",))
            continue
        if gb is None and (op == 0 or not groups):
            results.append(("no_groupby",))
            continue
        if op == 0 or not groups:
            try:
                key, grp = await gb.__anext__()
            except StopAsyncIteration:
                results.append(("gstop",))
            else:
                groups.append(grp)
                results.append(("key", ident(key)))
        elif op == 2:
            # closing a group handle (the live one or a stale one) ends that group and nothing else
            await groups[-1 - (i % len(groups))].aclose()
            results.append(("closed", i % len(groups)))
        elif op == 3:
            rest = await L.list(groups[-1 - (i % len(groups))])
            results.append(("drained", i % len(groups), tuple(ident(x) for x in rest)))
        elif op == 5:
            # a loop over the group that is left after its first item: the group itself stays good for the rest
            grp = groups[-1 - (i % len(groups))]
            got = []
            async for item in grp:
                got.append(item)
                break
            del grp
            if got:
                results.append(("item", i % len(groups), ident(got[0]), got[0]))
            else:
                results.append(("stop", i % len(groups)))
            del got
        else:
            grp = groups[-1 - (i % len(groups))]
            try:
                item = await grp.__anext__()
            except StopAsyncIteration:
                results.append(("stop", i % len(groups)))
            else:
                results.append(("item", i % len(groups), ident(item), item))
    if gb is not None:
        await gb.aclose()


def history_ref(sc, world, results):
    src = make_ref_source(world, sc.src)
    fn = make_ref_fn(world, sc.key) if sc.key is not None else None
    gb = itertools.groupby(src.obj, fn.obj) if fn is not None else itertools.groupby(src.obj)
    groups = []
    closed = set()
    log = world.log
    for n, (op, i) in enumerate(sc.ops):
        log.append(("op", n))
        if op == 4:
            gb = None
            results.append(("dropped",))
            continue
        if gb is None and (op == 0 or not groups):
            results.append(("no_groupby",))
            continue
        if op == 0 or not groups:
            try:
                key, grp = next(gb)
            except StopIteration:
                results.append(("gstop",))
            else:
                groups.append(grp)
                results.append(("key", ident(key)))
        elif op == 2:
            # itertools groups have no close; a closed group is one nobody asks for more: model it as such
            closed.add(id(groups[-1 - (i % len(groups))]))
            results.append(("closed", i % len(groups)))
        elif op == 5:
            grp = groups[-1 - (i % len(groups))]
            got = []
            if id(grp) not in closed:
                for item in grp:
                    got.append(item)
                    break
            if got:
                results.append(("item", i % len(groups), ident(got[0]), got[0]))
            else:
                results.append(("stop", i % len(groups)))
        elif op == 3:
            grp = groups[-1 - (i % len(groups))]
            rest = [] if id(grp) in closed else list(grp)
            closed.add(id(grp))  # a consumer closes what it has drained
            results.append(("drained", i % len(groups), tuple(ident(x) for x in rest)))
        else:
            grp = groups[-1 - (i % len(groups))]
            if id(grp) in closed:
                results.append(("stop", i % len(groups)))
                continue
            try:
                item = next(grp)
            except StopIteration:
                results.append(("stop", i % len(groups)))
            else:
                results.append(("item", i % len(groups), ident(item), item))


def execute(st, ctx):
    out = Outcome()
    ch = st.scenario
    cfg = draw_cfg(ch, logging_only=True, odd_items=False)
    sim = new_sim(st)
    ntenants = 1 + ch.weighted([4, 1])
    tenants = []
    for t in range(ntenants):
        sc = gen(ch, cfg, "ab"[t] if ntenants > 1 else "")
        world = World(sim, own_log=True)
        results = []
        sim.spawn(history_async(sc, world, results))
        tenants.append((sc, world, results))
    run_sim(sim)
    nontrivial = False
    for sc, world, results in tenants:
        if sim.capped or sim.deadlock:
            break
        rworld = World()
        rresults = []
        history_ref(sc, rworld, rresults)
        keykind = "nokey" if sc.key is None else sc.key.kind

        def describe(i=None):
            return {"source": sc.src.describe(), "key": sc.key.describe() if sc.key else None,
                    "ops": [(("advance", "group", "close_group", "drain_group", "drop_groupby", "loop_over_group_left_at_once")[o], i_) for o, i_ in sc.ops],
                    "async": [repr(r[:3]) for r in results], "itertools": [repr(r[:3]) for r in rresults]}

        if len(results) != len(sc.ops):
            out.violate("C16.history_did_not_finish", (keykind,), describe())
            continue
        bad = False
        for i, (a, b) in enumerate(zip(results, rresults)):
            if a[:3] != b[:3]:
                out.violate("C16.differs_from_itertools", (a[0], b[0]), dict(describe(), op_index=i))
                bad = True
                break
            if a[0] == "item" and is_source_item(b[3]) and a[3] is not b[3]:
                out.violate("C16.not_same_object", (keykind,), dict(describe(), op_index=i))
                bad = True
                break
        if not bad and sc.src.flavour not in ("list", "tuple"):
            la, lb = normalise(world.log), normalise(rworld.log)
            pos = first_diff(la, lb)
            if pos is not None:
                out.violate("C16.consumption_differs", (keykind,),
                            dict(describe(), position=pos, async_log=[repr(e) for e in la][:50],
                                 itertools_log=[repr(e) for e in lb][:50]))
        nkeys = sum(1 for r in rresults if r[0] == "key")
        stale = any(r[0] in ("stop", "item") and r[1] > 0 for r in rresults)
        if stale:
            out.probes["stale_group_advanced"] = 1
        if any(r[0] == "key" and r[1] == ("NoneType", "None") for r in rresults):
            out.probes["none_key"] = 1
        if any(r[0] == "gstop" for r in rresults):
            out.probes["groupby_exhausted"] = 1
        if sc.key is not None and sc.key.flavour != "def":
            out.probes["key_async"] = 1
        keys = [r[1] for r in rresults if r[0] == "key"]
        if len(set(keys)) < len(keys):
            out.probes["same_key_reoccurs"] = 1
        # a group advanced at least once, later the groupby advanced while that run was unfinished
        seen_item = False
        for r in rresults:
            if r[0] == "item" and r[1] == 0:
                seen_item = True
            elif r[0] == "key" and seen_item:
                out.probes["group_partially_consumed_then_skipped"] = 1
        if nkeys >= 2 and (stale or out.probes.get("group_partially_consumed_then_skipped")):
            nontrivial = True
    if sim.deadlock:
        out.violate("C16.deadlock", (), {})
    out.nontrivial = nontrivial
    out.shape = tuple([(sc.src.flavour, tuple(getattr(i, "key", None) for i in sc.src.items),
                        (sc.key.kind, sc.key.param, sc.key.flavour) if sc.key else None, tuple(sc.ops))
                       for sc, _, _ in tenants])
    if ctx.want_sample:
        sc, world, results = tenants[0]
        out.sample = {"source": sc.src.describe(), "key": sc.key.describe() if sc.key else None,
                      "ops": [(("advance", "group", "close_group", "drain_group", "drop_groupby", "loop_over_group_left_at_once")[o], i_) for o, i_ in sc.ops],
                      "results": [repr(r[:3]) for r in results]}
    if ctx.want_log:
        out.log = [[r[:3] for r in results] for _, _, results in tenants] + [w.log for _, w, _ in tenants] + [sim.trace]
    return finish_outcome(out, st, sim, ctx)


def explore(st, ctx):
    return [execute(st, ctx)]
