"""
C17 - event-loop agnostic: the library suspends only where user awaitables suspend.

Three parts, drawn per run:
  tokens   the workloads of the other operation classes are re-run in "C17 mode": an interrupt at
           (almost) every suspension; the loop checks that every object reaching it is a live token of
           the running task and every token checks that it gets its own reply / its own interrupt
  sync     an operation with only synchronous, non-suspending arguments is driven by a bare
           ``send(None)``: every awaitable / every ``__anext__`` must finish without suspending; input size is
           a knob (up to 20 000 items) and the outcome must be the stdlib's (no "needs a running loop" failures)
  tripwire (once per invocation, fresh subprocess) asyncio's loop entry points are replaced by
           tripwires before asyncstdlib is imported; a sample of all workloads must not trip one
"""

import importlib
import json
import os
import subprocess
import sys

from ..actors import World, SYNC_FLAVOURS
from ..loop import drive_sync
from ..runner import Outcome, VERIF_DIR
from ..tools import TOOLS, AGGS, TOOL_NAMES, AGG_NAMES, Gen, draw_cfg, lib
from ..tooldiff import build_async, _objs, ref_tool, ref_agg
from . import common
from .common import COMPONENTS_BASE

PID = "C17"
LEVEL = "exploration"
BUDGET = {"quick": 60000, "thorough": 1200000}
RULE = (
    "each run is one of: (concurrent use, 10%) 2..3 tasks issue anext/aclose on one tool iterator at the same time - "
    "errors are the library's right, invented suspensions are not; (misc, 10%) one ExitStack unwound by two tasks, "
    "closing/nullcontext around a suspending aclose, caches / apply over generator-based (types.coroutine) "
    "coroutines; (tokens, 50%) a workload of another operation class (iterator tools, aggregations, "
    "borrow, scoped_iter, tee, lru_cache, cached_property, contextmanager, ExitStack, decorators, groupby, "
    "asynctools) executed with interrupt density 1 (two absorbed throws per suspension) or 1/2, judged only by the "
    "loop protocol: object reaching the loop is a live token of that task, reply object and interrupt object reach "
    "exactly the awaitable that yielded; (sync, 30%) a drawn operation with all-synchronous arguments driven by "
    "send(None): zero suspensions. Additionally one fresh subprocess per invocation installs tripwires on "
    "asyncio.get_running_loop/get_event_loop/new_event_loop/events._get_running_loop/ensure_future/sleep/Lock/"
    "create_task before importing asyncstdlib and runs 2000 workload executions. Non-trivial: >=1 suspension "
    "with an interrupt (tokens) or >=1 awaited step (sync); distinct by (class, scenario choices)."
    " Extensions of rounds 9-12: replies that are exception instances; workloads that report 'no running event loop'; tee child closed by another tool, tee(source, 0), scoped_iter context entered twice."
)
COMPONENTS = COMPONENTS_BASE
ASSUMPTIONS = [
    "token protocol: user awaitables yield a Token object and expect its private reply object back (identity)",
    "violations of the re-used workloads' own clauses are not attributed to C17",
]
PROBES = ("misc_mode", "concurrent_use_mode", "library_refused_concurrent_use", "tokens_mode", "sync_mode", "interrupt_absorbed", "tripwire_subprocess_ran")
CLASSES = ("c01", "c02", "c05", "c07", "c09", "c10", "c11", "c12", "c14", "c15", "c16", "c19", "c08", "c13", "c20",
           "c03", "c04", "c06", "c18")
_mods = {}


def _mod(name):
    m = _mods.get(name)
    if m is None:
        m = _mods[name] = importlib.import_module("aslsim.checks." + name)
    return m


# --------------------------------------------------------------------------- sync part
def sync_part(st, ctx, out):
    ch = st.scenario
    L = lib()
    cfg = draw_cfg(ch, odd_items=False)
    cfg.src_flavours = SYNC_FLAVOURS
    cfg.fn_flavours = ("def",)
    cfg.max_susp = 0
    g = Gen(ch, cfg, "")
    sel = ch.draw(13)
    obs = []  # (what, suspended?)
    what = None
    if sel < 5:
        name = TOOL_NAMES[ch.draw(len(TOOL_NAMES))]
        what = name
        spec = TOOLS[name].gen(g)
        big = enlarge(ch, g, spec)
        world = World()
        world.log = _NullLog()
        srcs, fns = build_async(spec, world)
        it = TOOLS[name].a(L, spec, _objs(srcs), _objs(fns))
        end = None
        for _ in range(12 if not big else big + 5):
            susp, val, err = drive_sync(it.__anext__())
            if susp or err is not None:
                obs.append(("__anext__", susp))
                end = err
                break
        else:
            obs.append(("__anext__", False))
        s2, _, _ = drive_sync(it.aclose())
        obs.append(("aclose", s2))
        if big and not TOOLS[name].infinite:
            what = "%s[%d items]" % (name, big)
            ref = ref_tool(spec, big + 5)
            etype = type(end).__name__ if end is not None and not isinstance(end, StopAsyncIteration) else None
            rtype = type(ref.exc).__name__ if ref.end == "exc" else None
            if etype != rtype:
                out.violate("C17.fails_when_driven_without_a_loop", (name, str(etype)),
                            {"operation": what, "async_error": repr(end), "stdlib": repr(ref.exc)})
    elif sel < 8:
        name = AGG_NAMES[ch.draw(len(AGG_NAMES))]
        what = name
        spec = AGGS[name].gen(g)
        big = enlarge(ch, g, spec)
        world = World()
        world.log = _NullLog()
        srcs, fns = build_async(spec, world)
        susp, _, err = drive_sync(AGGS[name].a(L, spec, _objs(srcs), _objs(fns)))
        obs.append(("await", susp))
        if big:
            what = "%s[%d items]" % (name, big)
            ref = ref_agg(spec)
            etype = type(err).__name__ if err is not None else None
            rtype = type(ref.exc).__name__ if ref.end == "exc" else None
            if etype != rtype:
                out.violate("C17.fails_when_driven_without_a_loop", (name, str(etype)),
                            {"operation": what, "async_error": repr(err), "stdlib": repr(ref.exc)})
    elif sel == 8:
        what = "lru_cache+cached_property"

        @L.lru_cache(maxsize=ch.draw(3) or None)
        async def f(x):
            return x

        for x in (1, 2, 1, 3):
            obs.append(("cached call", drive_sync(f(x))[0]))

        class H:
            @L.cached_property
            async def p(self):
                return 5

        h = H()
        obs.append(("cached_property", drive_sync(_await(h.p))[0]))
        obs.append(("cached_property hit", drive_sync(_await(h.p))[0]))
    elif sel == 9:
        what = "contextlib"

        @L.contextmanager
        async def cm():
            yield 1

        class Sync:
            def __enter__(self):
                return 1

            def __exit__(self, *a):
                return False

        async def block():
            async with L.ExitStack() as stack:
                await stack.enter_context(cm())
                await stack.enter_context(Sync())
                stack.callback(lambda: None)
                stack.push(lambda *a: False)
            async with L.closing(L.iter([1])) as it, L.nullcontext(2):
                async for _ in it:
                    pass

            @cm()
            async def deco():
                return 3

            return await deco()

        obs.append(("contextlib block", drive_sync(block())[0]))
    elif sel == 10:
        what = "asynctools"
        items = g.items()

        async def block():
            async with L.scoped_iter(list(items)) as it:
                async for _ in L.islice(L.borrow(it), 2):
                    pass
            out_ = [x async for x in L.any_iter(list(items))]
            out_ += [x async for x in L.await_each([L.sync(lambda: 1)()])]
            return await L.apply(lambda a, b=0: a + b, L.sync(lambda: 1)(), b=L.sync(lambda: 2)())

        obs.append(("asynctools block", drive_sync(block())[0]))
    elif sel == 12:
        what = "file-like objects"
        import io

        text = "".join("line %d\n" % i for i in range(ch.between(0, 5)))

        async def block():
            got = await L.list(io.StringIO(text))
            got += [x async for x in L.map(len, io.BytesIO(text.encode()))]
            got += await L.list(L.zip(io.StringIO(text), L.enumerate(io.StringIO(text))))
            return got

        susp, val, err = drive_sync(block())
        obs.append(("file-like block", susp))
        want = list(io.StringIO(text)) + [len(x) for x in io.BytesIO(text.encode())] + \
            list(zip(io.StringIO(text), enumerate(io.StringIO(text))))
        if not susp and (err is not None or val != want):
            out.violate("C17.fails_when_driven_without_a_loop", ("file-like", type(err).__name__),
                        {"operation": what, "async_error": repr(err), "got": repr(val), "expected": repr(want)})
    else:
        what = "tee+groupby"
        items = g.items()

        async def block():
            a, b = L.tee(list(items), 2)
            n = 0
            async for _ in a:
                n += 1
            async for _ in b:
                n += 1
            async for k, grp in L.groupby(list(items)):
                async for _ in grp:
                    n += 1
            return n

        obs.append(("tee/groupby block", drive_sync(block())[0]))
    for name, susp in obs:
        if susp:
            out.violate("C17.suspended_with_sync_arguments", (what, name), {"operation": what, "observations": obs})
            break
    out.probes["sync_mode"] = 1
    out.nontrivial = bool(obs)
    out.shape = ("sync", what, tuple(st.scenario.rec[:40]))
    out.lists = st.recorded()
    if ctx.want_sample:
        out.sample = {"mode": "sync", "operation": what, "observations": obs}
    if ctx.want_log:
        out.log = [what, obs]
    return out


ENLARGEABLE = ("groupby", "zip", "map", "filter", "filterfalse", "enumerate", "accumulate", "batched", "chain", "dropwhile",
               "takewhile", "islice", "pairwise", "zip_longest", "all", "any", "min", "max", "list", "tuple", "set",
               "sorted", "reduce", "nlargest", "nsmallest")


class _NullLog:
    """Event log that records nothing (large inputs)"""

    def append(self, _event):
        pass


def enlarge(ch, g, spec):
    """Size is a knob too: occasionally the inputs are large (thresholds, chunking, 'be nice to the loop' paths)"""
    size = (0, 0, 0, 0, 0, 0, 600, 5000, 20000)[ch.draw(9)]
    if not size or spec.tool not in ENLARGEABLE or not spec.srcs:
        return 0
    from ..actors import Item, SrcPlan
    ks = g.cfg.keyspace
    for plan in spec.srcs:
        base = g.uid
        if spec.tool == "groupby":
            # long runs of equal keys: skipping an unconsumed group discards hundreds of items
            extra = [Item((i // 350) % max(ks, 2), base + i + 1) for i in range(size)]
        else:
            extra = [Item(i % ks, base + i + 1) for i in range(size)]
        g.uid += size
        plan.items = list(plan.items) + extra
        if plan.flavour == "tuple":
            plan.flavour = "list"
    return size + max(len(p.items) for p in spec.srcs) - size


async def _await(x):
    return await x


# --------------------------------------------------------------------------- tokens part
def tokens_part(st, ctx, out):
    ch = st.scenario
    cls = CLASSES[ch.draw(len(CLASSES))]
    den = 1 if ch.chance(2, 3) else 2
    mod = _mod(cls)
    common.FORCE_INTERRUPT_DEN[0] = den
    common.FORCE_BACKEND[0] = "sim"
    try:
        sub = mod.execute(st, ctx)
    finally:
        common.FORCE_INTERRUPT_DEN[0] = None
        common.FORCE_BACKEND[0] = None
    if sub.breach_detail:
        kind = sub.breach_detail[0][0]
        out.violate("C17." + kind, (cls,), {"workload_class": cls, "breaches": [repr(b) for b in sub.breach_detail],
                                            "scenario": sub.sample})
    for v in sub.violations:
        # whatever else it means for the workload's own property: the library asked for an asyncio loop
        text = repr(v.detail)
        if "no running event loop" in text or "no current event loop" in text:
            out.violate("C17.library_needed_an_event_loop", (cls,), {"workload_class": cls, "clause": v.clause, "detail": v.detail})
            break
    out.probes["tokens_mode"] = 1
    n_int = sub.faults.get("interrupt_absorbed", 0)
    if n_int:
        out.probes["interrupt_absorbed"] = 1
        out.faults["interrupt_absorbed"] = n_int
    out.faults["suspension"] = sub.faults.get("suspension", 0)
    out.fault_free = not n_int
    out.nontrivial = bool(n_int)
    out.shape = ("tokens", cls, den, sub.shape)
    out.steps, out.sim_time, out.trace, out.capped = sub.steps, sub.sim_time, sub.trace, sub.capped
    out.lists = sub.lists or st.recorded()
    if ctx.want_sample:
        out.sample = {"mode": "tokens", "workload_class": cls, "interrupt_density": "1/%d" % den,
                      "interrupts_absorbed": n_int, "suspensions": sub.faults.get("suspension", 0),
                      "workload": sub.sample}
    if ctx.want_log:
        out.log = [cls, sub.log]
    return out


# --------------------------------------------------------------------------- concurrent (mis)use part
def misuse_part(st, ctx, out):
    """
    Several tasks operate on ONE library iterator at the same time (anext while another anext or an aclose is in
    flight).  The library may refuse such use with an error - but whatever it does, it must not invent suspensions:
    everything that reaches the loop must still be a token of a user awaitable.
    """
    from ..loop import PAUSE
    from ..tooldiff import Run
    from .common import new_sim, run_sim, finish_outcome

    ch = st.scenario
    cfg = draw_cfg(ch, async_only=True, all_suspend=True, odd_items=False)
    g = Gen(ch, cfg, "")
    g.all_suspend = True
    name = TOOL_NAMES[ch.draw(len(TOOL_NAMES))]
    spec = TOOLS[name].gen(g)
    if name == "batched" and spec.p["n"] < 1:
        spec.p["n"] = 1
    sim = new_sim(st, interrupts=False)
    common.set_interrupts(sim, (0, 2, 1)[ch.draw(3)])
    world = World(sim, own_log=True)
    srcs, fns = build_async(spec, world)
    it = TOOLS[name].a(lib(), spec, _objs(srcs), _objs(fns))
    plans = [[ch.weighted([3, 1]) for _ in range(ch.between(1, 4))] for _ in range(ch.between(2, 3))]
    outcomes = []

    async def user(ops):
        for op in ops:
            try:
                if op == 0:
                    await it.__anext__()
                    outcomes.append("item")
                else:
                    await it.aclose()
                    outcomes.append("closed")
            except StopAsyncIteration:
                outcomes.append("stop")
            except Exception as err:  # "already running" and the like are the library's right
                outcomes.append(type(err).__name__)
            await sim.suspend(PAUSE, None, "user")

    for ops in plans:
        sim.spawn(user(ops))
    run_sim(sim)
    if sim.breaches:
        out.violate("C17." + sim.breaches[0][0], ("concurrent_use", name),
                    {"tool": spec.describe(), "plans": plans, "breaches": [repr(b) for b in sim.breaches[:3]],
                     "outcomes": outcomes})
    out.probes["concurrent_use_mode"] = 1
    if any(o not in ("item", "stop", "closed") for o in outcomes):
        out.probes["library_refused_concurrent_use"] = 1
    out.nontrivial = sim.n_tokens > 0
    out.shape = ("misuse", spec.shape_key(), tuple(tuple(p) for p in plans))
    if ctx.want_sample:
        out.sample = {"mode": "concurrent use of one iterator", "tool": spec.describe(), "plans": plans, "outcomes": outcomes}
    if ctx.want_log:
        out.log = [outcomes, sim.trace]
    return finish_outcome(out, st, sim, ctx)


# --------------------------------------------------------------------------- corners no other workload visits
def misc_part(st, ctx, out):
    """
    (a) one ExitStack unwound by one task while another task closes it as well; (b) ``closing`` / ``nullcontext``
    around an object whose ``aclose`` suspends; (c) caches and ``apply`` over *generator-based*
    coroutines (``types.coroutine`` - what curio / trio style traps are made of: awaitable, yet without ``__await__``).
    Judged by the loop protocol; (c) additionally must simply work.
    """
    import types
    from ..loop import PAUSE
    from .common import new_sim, run_sim, finish_outcome

    ch = st.scenario
    sim = new_sim(st, interrupts=False)
    common.set_interrupts(sim, (1, 2, 0)[ch.draw(3)])
    L = lib()
    what = ch.draw(6)
    problems = []
    detail = {}

    async def pause(n, who):
        for _ in range(n):
            await sim.suspend(PAUSE, None, who)

    if what == 0:
        n = ch.between(1, 3)
        susp = [ch.between(1, 2) for _ in range(n)]
        b_pauses = ch.draw(4)
        b_ops = ch.between(1, 2)
        stack = L.ExitStack()
        detail = {"kind": "ExitStack shared by two tasks", "exits": susp, "second_task_waits": b_pauses}

        class CM:
            def __init__(self, k):
                self.k = k

            async def __aenter__(self):
                return self

            async def __aexit__(self, *exc):
                await pause(susp[self.k], "exit")
                return False

        async def task_a():
            async with stack:
                for k in range(n):
                    if k % 2:
                        stack.push(CM(k))
                    else:
                        await stack.enter_context(CM(k))
                await pause(1, "body")

        async def task_b():
            await pause(b_pauses, "other")
            for _ in range(b_ops):
                try:
                    await stack.aclose()
                except Exception as err:  # refusing concurrent use would be the library's right
                    detail.setdefault("refused", repr(err))
                await pause(1, "other")

        sim.spawn(task_a())
        sim.spawn(task_b())
    elif what == 1:
        k_close = ch.between(1, 3)
        raises = ch.chance(1, 3)
        detail = {"kind": "closing / nullcontext", "aclose_suspends": k_close, "block_raises": raises}

        class Thing:
            closed = 0

            async def aclose(self):
                await pause(k_close, "aclose")
                Thing.closed += 1

        async def task():
            thing = Thing()
            try:
                async with L.closing(thing) as got, L.nullcontext(7) as seven:
                    if got is not thing or seven != 7:
                        problems.append("closing / nullcontext bound %r / %r" % (got, seven))
                    await pause(1, "body")
                    if raises:
                        raise KeyError("block")
            except KeyError:
                pass
            if Thing.closed != 1:
                problems.append("closing awaited aclose %d times" % Thing.closed)

        sim.spawn(task())
    elif what == 5:
        # misuse the library refuses: one scoped_iter context object entered again while it is entered. Refusing is the
        # library's right - finding out *who* misuses it by asking asyncio for the current task is not (no loop runs)
        k_next = ch.draw(3)
        detail = {"kind": "scoped_iter context entered twice", "source_suspends": k_next}

        async def numbers():
            for i in range(3):
                await pause(k_next, "numbers")
                yield i

        async def task():
            context = L.scoped_iter(numbers())
            async with context as first:
                await first.__anext__()
                try:
                    async with context:
                        problems.append("the same context object could be entered twice")
                except BaseException as err:
                    if type(err).__name__ == "Cancel":
                        raise
                    if "event loop" in str(err):
                        problems.append("refusing the misuse needed an event loop: %r" % (err,))
                await first.__anext__()

        sim.spawn(task())
    elif what == 4:
        # iterators handed out by one tool (tee children, groups) consumed by another tool that stops early and closes
        # what it was given: closing the last live tee child closes the source, whose aclose suspends
        n = ch.between(1, 3) if not ch.chance(1, 6) else 0  # (tee(source, 0): no children at all)
        k_close = ch.between(1, 2)
        consumer = ch.draw(5)
        length = ch.between(2, 5)
        detail = {"kind": "tee child closed by another tool", "children": n, "source_aclose_suspends": k_close,
                  "consumer": ("islice", "any", "takewhile", "zip", "anext+aclose")[consumer], "items": length}

        class Feed:
            def __init__(self):
                self.i = 0
                self.closed = 0

            def __aiter__(self):
                return self

            async def __anext__(self):
                await pause(1, "feed")
                if self.i >= length:
                    raise StopAsyncIteration
                self.i += 1
                return self.i

            async def aclose(self):
                await pause(k_close, "feed-aclose")
                self.closed += 1

        async def task():
            feed = Feed()
            if n == 0:
                handle = L.tee(feed, 0)
                if len(handle) != 0:
                    problems.append("tee(source, 0) has %d children" % len(handle))
                await handle.aclose()
                if feed.closed > 1:
                    problems.append("source closed %d times" % feed.closed)
                return
            children = list(L.tee(feed, n))
            for c in children[1:]:
                await c.aclose()
            child = children[0]
            del children
            if consumer == 0:
                got = [x async for x in L.islice(child, 1)]
            elif consumer == 1:
                got = await L.any(child)
            elif consumer == 2:
                got = [x async for x in L.takewhile(lambda x: x < 2, child)]
            elif consumer == 3:
                got = [x async for x in L.zip(child, [0])]
            else:
                got = await child.__anext__()
                await child.aclose()
            if not got:
                problems.append("consumer got %r" % (got,))
            await child.aclose()
            if feed.closed != 1:
                problems.append("source closed %d times after its last child was closed" % feed.closed)

        sim.spawn(task())
    elif what == 3:
        n = ch.between(2, 3)
        take = ch.draw(3)
        detail = {"kind": "zip over sources whose aclose raises", "sources": n, "items_taken": take}

        class CloseFails(Exception):
            pass

        class Src:
            def __init__(self, k):
                self.k, self.i = k, 0

            def __aiter__(self):
                return self

            async def __anext__(self):
                await pause(1, "source")
                self.i += 1
                if self.i > 3:
                    raise StopAsyncIteration
                return (self.k, self.i)

            async def aclose(self):
                await pause(1, "aclose")
                raise CloseFails(self.k)

        async def task():
            it = L.zip(*[Src(k) for k in range(n)])
            for _ in range(take):
                await it.__anext__()
            try:
                await it.aclose()
            except CloseFails:
                pass  # whichever close failure surfaces is the sources' doing
            except BaseException as err:  # noqa
                problems.append("closing zip over sources whose aclose raises gave %r" % (err,))

        sim.spawn(task())
    else:
        maxsize = (None, None, 1, 2, 0)[ch.draw(5)]
        keys = [ch.draw(3) for _ in range(ch.between(1, 5))]
        k_f = ch.between(1, 2)
        detail = {"kind": "generator-based coroutines", "maxsize": maxsize, "keys": keys}
        calls = []

        @types.coroutine
        def trap(who):
            # a generator-based coroutine: legal to await, has no __await__ attribute
            got = yield from sim.suspend(PAUSE, None, who).__await__()
            return got

        @types.coroutine
        def wrapped(key):
            calls.append(key)
            for _ in range(k_f):
                yield from trap("wrapped")
            return ("v", key)

        async def task():
            cached = L.cache(wrapped) if (maxsize is None and keys[0] % 2) else L.lru_cache(maxsize=maxsize)(wrapped)
            try:
                for key in keys:
                    v = await cached(key)
                    if v != ("v", key):
                        problems.append("cache over a generator-based coroutine gave %r for %r" % (v, key))
                r = await L.apply(lambda a, b=0: (a, b), wrapped(10), b=wrapped(11))
                if r != (("v", 10), ("v", 11)):
                    problems.append("apply gave %r" % (r,))
                # (any_iter / sync / awaitify recognise awaitables by collections.abc.Awaitable, which generator-based
                # coroutine objects are not registered with: handing them *items* or *results* of that kind is outside
                # what the library promises; awaiting them directly - caches, apply - is not)
            except Exception as err:
                problems.append("failed for a generator-based coroutine: %r" % (err,))

        sim.spawn(task())
    run_sim(sim)
    sig = ("misc", ("exitstack_two_tasks", "closing", "generator_based_coroutines", "zip_close_failures",
                    "tee_child_closed_by_another_tool", "scoped_iter_entered_twice")[what])
    if sim.deadlock:
        out.violate("C17.deadlock", sig, detail)
    elif not sim.capped:
        if sim.breaches:
            out.violate("C17." + sim.breaches[0][0], sig, dict(detail, breaches=[repr(b) for b in sim.breaches[:3]]))
        elif problems:
            out.violate("C17.does_not_work_with_plain_awaitables", sig, dict(detail, problems=problems))
        for t in sim.tasks:
            # (the scenario's own tasks: what the loop's finalizer does with iterators the library dropped unfinished -
            # islice leaves its inner enumerate behind, whose finalisation then closes the same input a second time while
            # the first close is still suspended - fails or not in the finalizer's task, never in the user's)
            if t.error is not None and not t.is_finalizer and not problems and not sim.breaches:
                out.violate("C17.task_failed", sig + (type(t.error).__name__,), dict(detail, error=repr(t.error)))
                break
    out.probes["misc_mode"] = 1
    out.nontrivial = sim.n_tokens > 0
    out.shape = ("misc", what, tuple(sorted((k, repr(v)) for k, v in detail.items())))
    if ctx.want_sample:
        out.sample = dict(detail, mode="misc")
    if ctx.want_log:
        out.log = [repr(detail), problems, sim.trace]
    return finish_outcome(out, st, sim, ctx)


def execute(st, ctx):
    out = Outcome()
    sel = st.scenario.draw(10)
    if sel < 3:
        return sync_part(st, ctx, out)
    if sel == 3:
        return misuse_part(st, ctx, out)
    if sel == 4:
        return misc_part(st, ctx, out)
    return tokens_part(st, ctx, out)


def explore(st, ctx):
    outs = [execute(st, ctx)]
    return outs


# --------------------------------------------------------------------------- tripwire part
TRIPWIRE_SRC = r'''
import sys, json
sys.path.insert(0, %(verif)r)
sys.dont_write_bytecode = True
import asyncio, asyncio.events, asyncio.tasks, asyncio.locks
tripped = []
def wire(mod, name):
    orig = getattr(mod, name)
    def trip(*a, **k):
        tripped.append(name)
        return orig(*a, **k)
    setattr(mod, name, trip)
for mod, name in ((asyncio, "get_running_loop"), (asyncio, "get_event_loop"), (asyncio, "new_event_loop"),
                  (asyncio.events, "get_running_loop"), (asyncio.events, "_get_running_loop"),
                  (asyncio.events, "get_event_loop"), (asyncio, "ensure_future"), (asyncio, "sleep"),
                  (asyncio.tasks, "sleep"), (asyncio, "create_task"), (asyncio, "run")):
    wire(mod, name)
class TripLock(asyncio.Lock):
    def __init__(self, *a, **k):
        tripped.append("Lock")
        super().__init__(*a, **k)
asyncio.Lock = TripLock
asyncio.locks.Lock = TripLock
from aslsim.runner import setup_repo_path, load_check, Ctx
from aslsim.choice import Streams
from aslsim.checks import common
common.FORCE_BACKEND[0] = "sim"
import gc
setup_repo_path()
gc.disable()
n = 0
for pid in %(pids)r:
    check = load_check(pid)
    for i in range(%(per)d):
        for out in check.explore(Streams.generate(%(seed)d, pid, i), Ctx()):
            n += 1
print("TRIPWIRE " + json.dumps({"tripped": sorted(set(tripped)), "count": len(tripped), "executions": n}))
'''


def extra_checks(verif_seed, tier):
    """Called once per invocation by the runner (parent process)"""
    pids = ["C01", "C02", "C07", "C09", "C10", "C11", "C12", "C14", "C15", "C16", "C19", "C08", "C13", "C04"]
    per = 150 if tier == "quick" else 1500
    src = TRIPWIRE_SRC % {"verif": VERIF_DIR, "pids": pids, "per": per, "seed": verif_seed}
    env = dict(os.environ)
    proc = subprocess.run([sys.executable, "-B", "-c", src], capture_output=True, text=True, env=env,
                          cwd=VERIF_DIR, timeout=1200)
    info = None
    for line in proc.stdout.splitlines():
        if line.startswith("TRIPWIRE "):
            info = json.loads(line[9:])
    if info is None:
        return {"error": "tripwire subprocess failed: %s" % (proc.stderr[-1500:],)}
    res = {"probes": {"tripwire_subprocess_ran": 1}, "evaluations": info["executions"], "info": info}
    if info["tripped"]:
        res["violation"] = {"clause": "C17.touches_asyncio_loop", "sig": info["tripped"],
                            "detail": {"tripped": info["tripped"], "count": info["count"]}}
    return res
