"""
C18 - cancellation anywhere leaves no leaked source, held lock or poisoned cache.

Fault enumeration: for a sampled scenario of an operation class whose sources, callables and locks all
suspend, a fault-free dry run counts the suspension points N of the operation's task; then one simulated
execution per c = 1..N throws a unique Cancel instance into the task at its c-th suspension.
"""

from ..actors import World, InjectedFault
from ..choice import Chooser, Streams
from ..loop import PAUSE, Cancel, CANCEL_TYPES, make_lock_type
from ..runner import Outcome
from ..tools import TOOLS, AGGS, TOOL_NAMES, AGG_NAMES, Gen, draw_cfg, lib
from ..tooldiff import build_async, _objs
from .common import (
    set_interrupts, COMPONENTS_BASE, run_sim, new_sim, finish_outcome, enumerate_faults, bounded_steps,
)

PID = "C18"
LEVEL = "fault_enumeration"
BUDGET = {"quick": 150000, "thorough": 2500000}
RULE = (
    "each run samples a scenario of one operation class - iterator tool, aggregation (async sources of both "
    "kinds and async callables, all suspending), tee with lock (2..3 consumers), lru_cache, cached_property with "
    "lock (2 awaiters), ExitStack (suspending enters/exits), scoped_iter block (optionally nested) - and enumerates cancel@c for every suspension point "
    "c = 1..N of the fault-free execution of the target task; one simulated execution per c. Oracle: the Cancel "
    "instance thrown in is the exception leaving the operation; after the owner closed the iterator it was "
    "advancing: every source closed/exhausted, every SimLock free, ExitStack exits ran exactly once and those "
    "pending received that instance, cache/property hold no partial entry and a follow-up use works. "
    "Non-trivial: the cancel fired inside the operation; distinct = distinct (scenario, c)."
    " Extensions of rounds 9-12: exact LRU model after a cancelled call (it evicts nothing); plain callbacks returning a truthy value."
)
COMPONENTS = COMPONENTS_BASE
ASSUMPTIONS = [
    "sources' own aclose does not suspend in these runs (cancellation during cleanup is a double fault, see DESIGN 9 C18)",
    "the owner of a cancelled iterator closes it (aclose) before sources are judged, as the property states",
    "scoped_iter blocks with tool applications inside are enumerated under cancellation by check C08 as well",
]
PROBES = ("cancel_in_source", "cancel_in_callable", "cancel_at_lock_wait", "cancel_in_getter", "cancel_in_wrapped",
          "cancel_in_exit_callback", "cancel_in_enter", "cancel_in_block_body", "class_tool", "class_agg",
          "class_tee", "class_lru", "class_cached_property", "class_exitstack", "class_scoped_iter", "class_groupby_group")
NAMES = tuple(n for n in TOOL_NAMES if n not in ("iter_sentinel",)) + AGG_NAMES
CLASSES = ("op", "op", "op", "tee", "lru", "cprop", "stack", "scoped", "group")


class Prep:
    pass


def prepare(ch):
    prep = Prep()
    prep.cls = CLASSES[ch.draw(len(CLASSES))]
    prep.interrupt = ch.draw(4)
    cfg = draw_cfg(ch, async_only=True, all_suspend=True, odd_items=False)
    cfg.aclose_susp = False
    cfg.fn_flavours = ("async", "partial_async", "obj_coro", "obj_awaitable")
    prep.cfg = cfg
    g = Gen(ch, cfg, "")
    g.all_suspend = True
    if prep.cls == "op":
        name = NAMES[ch.draw(len(NAMES))]
        prep.is_agg = name in AGGS
        prep.spec = (AGGS if prep.is_agg else TOOLS)[name].gen(g)
        if name == "batched" and prep.spec.p["n"] < 1:
            prep.spec.p["n"] = 1
        if len(prep.spec.srcs) >= 2 and not prep.spec.p.get("alias") and ch.chance(1, 3):
            # some of the arguments are plain containers (nothing to close, nothing to suspend in)
            for p_ in prep.spec.srcs[:-1]:
                if ch.chance(1, 2):
                    p_.flavour, p_.suspend, p_.dual, p_.equal, p_.falsy = ("list", "tuple")[ch.draw(2)], (), False, False, False
        prep.steps = None
        if not prep.is_agg and TOOLS[name].infinite:
            prep.steps = bounded_steps(ch, prep.spec)
    elif prep.cls == "tee":
        prep.src = g.src(g.items(ch.between(1, 5)))
        prep.n = ch.between(2, 3)
        prep.lock_policy = ch.draw(2)
        prep.lock_acq = ch.chance(1, 3)
        prep.target = ch.draw(prep.n)
    elif prep.cls == "lru":
        prep.maxsize = (None, 1, 2)[ch.draw(3)]
        prep.keys = [ch.draw(3) for _ in range(ch.between(1, 5))]
        prep.susp = [ch.between(1, 2) for _ in range(3)]
    elif prep.cls == "cprop":
        prep.susp = [ch.between(1, 2) for _ in range(3)]
        prep.lock_policy = ch.draw(2)
        prep.lock_acq = ch.chance(1, 3)
        prep.second = ch.chance(1, 2)
        # another task invalidates the property (del instance.attr) while the computation is in flight
        prep.deleter = ch.draw(4) if ch.chance(1, 3) else None
    elif prep.cls == "group":
        # a group of a groupby advanced directly; whoever is being advanced when the cancellation arrives gets closed
        prep.src = g.src(g.items(ch.between(1, 6)))
        prep.key = g.fn(("keyval", "div", "const")[ch.draw(3)], ch.draw(2))
        prep.per_group = ch.between(1, 3)
    elif prep.cls == "scoped":
        prep.src = g.src(g.items(ch.between(0, 4)))
        prep.pre = ch.draw(3)     # block-level suspensions before the first pull
        prep.between = ch.draw(2)
        prep.nested = ch.chance(1, 3)
    else:
        n = ch.between(1, 4)
        prep.entries = [(ch.draw(5), ch.between(1, 2), ch.weighted([4, 1, 1, 1])) for _ in range(n)]
        # (kind: 0 entered async cm | 1 pushed async exit | 2 async callback | 3 entered synchronous cm
        #  | 4 a plain (synchronous) callback - whatever it returns, truthy included, is its own business; suspensions,
        #  behaviour 0 falsy 1 truthy 2 raise 3 registers one more exit on the stack when it is handed an exception)
        prep.body_susp = ch.between(1, 2)
        prep.block_raises = ch.chance(1, 3)
        # the same stack object served an earlier block whose unwind ended by raising (and was handled)
        prep.reused = ch.chance(1, 4)
    # dry run
    st = Streams(Chooser(replay=[]), Chooser(replay=[0]), Chooser(replay=[]))
    sim, info = run_once(prep, st, None, 0)
    prep.n_susp = info["target"].nsusp
    return prep


def fault_lists(prep, faults):
    # the value replayed is c - 1 (run_prepared adds 1): suspension points 1..N
    return [[c, faults.draw(len(CANCEL_TYPES))] for c in range(0, prep.n_susp)] or [[0, 0]]


# --------------------------------------------------------------------------- one execution
def run_once(prep, st, cancel_at, interrupts, cancel_type=Cancel):
    sim = new_sim(st, interrupts=False)
    sim.cancel_type = cancel_type
    set_interrupts(sim, interrupts)
    info = {"problems": [], "target": None, "reached": False, "leaving": None, "detail": {}}
    runner = {"op": run_op, "tee": run_tee, "lru": run_lru, "cprop": run_cprop, "stack": run_stack,
              "scoped": run_scoped, "group": run_group}[prep.cls]
    runner(prep, st, sim, info, cancel_at)
    return sim, info


def unreleased(srcs, spec=None):
    # chain.from_iterable owns only the members it already fetched (documented)
    from_iterable = spec is not None and spec.tool == "chain" and spec.p.get("form")
    return [s.name for s in srcs if s.must_release and not s.released and not (from_iterable and not s.started)]


def run_op(prep, st, sim, info, cancel_at):
    spec = prep.spec
    world = World(sim, own_log=True)
    L = lib()
    srcs, fns = build_async(spec, world)
    info["detail"]["spec"] = spec.describe()

    async def consumer():
        S, F = _objs(srcs), _objs(fns)
        if prep.is_agg:
            try:
                await AGGS[spec.tool].a(L, spec, S, F)
            except Cancel as err:
                info["leaving"] = err
                bad = unreleased(srcs, spec)
                if bad:
                    info["problems"].append(("C18.source_leaked_after_cancel", (spec.tool,), {"unreleased": bad}))
                raise
            except (TypeError, ValueError, InjectedFault):
                pass
            return
        it = TOOLS[spec.tool].a(L, spec, S, F)
        del S, F
        n = 0
        try:
            while prep.steps is None or n < prep.steps:
                try:
                    await it.__anext__()
                except StopAsyncIteration:
                    break
                except Cancel:
                    raise  # (a cancellation may also be an instance of TypeError / ValueError)
                except (TypeError, ValueError):
                    break
                n += 1
                if n > 3000:
                    raise RuntimeError("tool over finite inputs does not end")
        except Cancel as err:
            info["leaving"] = err
            # the owner closes the iterator it was advancing, then everything must be released
            try:
                await it.aclose()
            except BaseException as cerr:  # noqa
                info["problems"].append(("C18.aclose_after_cancel_raised", (spec.tool, type(cerr).__name__), {"exc": repr(cerr)}))
            bad = unreleased(srcs, spec)
            if bad:
                info["problems"].append(("C18.source_leaked_after_cancel", (spec.tool,), {"unreleased": bad}))
            raise
        await it.aclose()

    task = sim.spawn(consumer())
    info["target"] = task
    if cancel_at:
        sim.cancel_plan[task.id] = cancel_at
    run_sim(sim)


def run_group(prep, st, sim, info, cancel_at):
    from ..actors import make_async_source, make_async_fn
    world = World(sim, own_log=True)
    L = lib()
    src = make_async_source(world, prep.src)
    key = make_async_fn(world, prep.key)
    info["detail"].update({"source": prep.src.describe(), "key": prep.key.describe(), "items_per_group": prep.per_group})

    async def consumer():
        gb = L.groupby(src.obj, key.obj)
        advancing = gb
        try:
            while True:
                advancing = gb
                try:
                    _k, grp = await gb.__anext__()
                except StopAsyncIteration:
                    break
                advancing = grp
                for _ in range(prep.per_group):
                    try:
                        await grp.__anext__()
                    except StopAsyncIteration:
                        break
        except Cancel as err:
            info["leaving"] = err
            info["detail"]["cancelled_while_advancing"] = "group" if advancing is not gb else "groupby"
            try:
                await advancing.aclose()
            except BaseException as cerr:  # noqa
                info["problems"].append(("C18.aclose_after_cancel_raised", ("groupby", type(cerr).__name__), {"exc": repr(cerr)}))
            if src.must_release and not src.released:
                info["problems"].append(("C18.source_leaked_after_cancel",
                                         ("groupby", info["detail"]["cancelled_while_advancing"]), {"unreleased": [src.name]}))
            raise
        await gb.aclose()

    task = sim.spawn(consumer())
    info["target"] = task
    if cancel_at:
        sim.cancel_plan[task.id] = cancel_at
    run_sim(sim)


def run_tee(prep, st, sim, info, cancel_at):
    from ..actors import make_async_source
    world = World(sim, own_log=True)
    L = lib()
    src = make_async_source(world, prep.src)
    lock = make_lock_type(sim, prep.lock_policy, prep.lock_acq, False)()
    handle = L.tee(src.obj, prep.n, lock=lock)
    finished = [None] * prep.n

    async def consumer(ci):
        child = handle[ci]
        try:
            while True:
                try:
                    await child.__anext__()
                except StopAsyncIteration:
                    finished[ci] = "stop"
                    break
                await sim.suspend(PAUSE, None, "consumer")
        except Cancel as err:
            if ci == prep.target:
                info["leaving"] = err
            finished[ci] = "cancelled"
            await child.aclose()
            raise

    tasks = [sim.spawn(consumer(ci)) for ci in range(prep.n)]
    info["target"] = tasks[prep.target]
    if cancel_at:
        sim.cancel_plan[tasks[prep.target].id] = cancel_at
    run_sim(sim)
    info["detail"].update({"source": prep.src.describe(), "children": prep.n, "finished": finished})
    if sim.deadlock or sim.capped:
        return
    if lock.misuse:
        info["problems"].append(("C18.lock_misused", ("tee", lock.misuse[0][0]), {"misuse": lock.misuse}))
    if lock.owner is not None or lock.waiters:
        info["problems"].append(("C18.lock_held_after_cancel", ("tee",), {}))
    if any(f is None for f in finished):
        info["problems"].append(("C18.sibling_never_finished", ("tee",), {"finished": finished}))
    if src.must_release and not src.released:
        info["problems"].append(("C18.source_leaked_after_cancel", ("tee",), {}))


def run_scoped(prep, st, sim, info, cancel_at):
    from ..actors import make_async_source
    world = World(sim, own_log=True)
    L = lib()
    src = make_async_source(world, prep.src)

    async def block():
        try:
            async with L.scoped_iter(src.obj) as it:
                for _ in range(prep.pre):
                    await sim.suspend(PAUSE, None, "body")
                if prep.nested:
                    async with L.scoped_iter(it) as inner:
                        async for _item in L.islice(inner, 1):
                            pass
                async for _item in it:
                    for _ in range(prep.between):
                        await sim.suspend(PAUSE, None, "body")
        except Cancel as err:
            info["leaving"] = err
            raise

    task = sim.spawn(block())
    info["target"] = task
    if cancel_at:
        sim.cancel_plan[task.id] = cancel_at
    run_sim(sim)
    info["detail"].update({"source": prep.src.describe(), "pre": prep.pre, "nested": prep.nested})
    if sim.deadlock or sim.capped:
        return
    fl = prep.src.flavour
    if fl in ("aiter_cls", "aiterable", "aiter_full") and src.n_aclose != 1:
        info["problems"].append(("C18.scoped_source_not_closed_exactly_once", ("scoped_iter", "count=%d" % src.n_aclose), {}))
    elif fl == "agen" and src.agen.ag_frame is not None:
        info["problems"].append(("C18.scoped_source_not_closed_exactly_once", ("scoped_iter", "count=0"), {}))


def run_lru(prep, st, sim, info, cancel_at):
    L = lib()
    invs = []

    async def wrapped(key):
        rec = [key, "running"]
        invs.append(rec)
        try:
            for _ in range(prep.susp[len(invs) % 3]):
                await sim.suspend(PAUSE, None, "wrapped")
        except Cancel:
            rec[1] = "cancelled"
            raise
        rec[1] = "ok"
        return ("v", key, len(invs))

    cached = L.lru_cache(maxsize=prep.maxsize)(wrapped)
    done = []

    async def caller():
        try:
            for key in prep.keys:
                done.append((key, await cached(key)))
        except Cancel as err:
            info["leaving"] = err
            raise

    task = sim.spawn(caller())
    info["target"] = task
    if cancel_at:
        sim.cancel_plan[task.id] = cancel_at
    run_sim(sim)
    info["detail"].update({"maxsize": prep.maxsize, "keys": prep.keys, "invocations": [list(r) for r in invs]})
    if sim.deadlock or sim.capped:
        return
    ci = cached.cache_info()
    ok_keys = []
    for key, status in invs:
        if status == "ok":
            ok_keys.append(key)
    # no partial entry: size is what the completed invocations explain
    expect = len(set(ok_keys)) if prep.maxsize is None else min(prep.maxsize, len(set(ok_keys)))
    if ci.currsize > expect:
        info["problems"].append(("C18.cache_holds_partial_entry", ("lru_cache",), {"info": tuple(ci), "completed": ok_keys}))
    if ci.hits + ci.misses != len(done) + (1 if info["leaving"] is not None else 0):
        info["problems"].append(("C18.cache_statistics_inconsistent", ("lru_cache",), {"info": tuple(ci), "calls": len(done)}))
    # the history is sequential, so the contents are known exactly: the C10 model, in which a call that did not
    # complete (cancelled, like one that raised under functools.lru_cache) changes nothing - in particular it evicts nothing
    from collections import OrderedDict
    model = OrderedDict()

    def model_call(key):
        if key in model:
            model.move_to_end(key)
            return 0
        model[key] = True
        if prep.maxsize is not None and len(model) > prep.maxsize:
            model.popitem(last=False)
        return 1

    for key, _v in done:
        model_call(key)
    if ci.currsize != len(model):
        info["problems"].append(("C18.cache_contents_changed_by_cancelled_call", ("lru_cache", "currsize"),
                                 {"info": tuple(ci), "completed_calls": [k for k, _ in done], "expected_currsize": len(model)}))
    # follow-up: the cancelled key is computed afresh and cached
    post = []

    async def follow():
        for key in (0, 1, 2):
            n0 = len(invs)
            v = await cached(key)
            post.append((key, v, len(invs) - n0))
        n0 = len(invs)
        v2 = await cached(2)
        post.append((2, v2, len(invs) - n0))

    t2 = sim.spawn(follow())
    run_sim(sim)
    if t2.error is not None or len(post) != 4:
        info["problems"].append(("C18.cache_unusable_after_cancel", ("lru_cache",), {"error": repr(t2.error)}))
    else:
        values_ok = {v for k, v in done}
        for key, v, ninv in post[:3]:
            if ninv == 0 and v not in values_ok:
                info["problems"].append(("C18.cache_serves_value_of_cancelled_call", ("lru_cache",), {"post": repr(post)}))
                break
        expected_invocations = [model_call(key) for key in (0, 1, 2, 2)]
        if [p[2] for p in post] != expected_invocations:
            info["problems"].append(("C18.cache_contents_changed_by_cancelled_call", ("lru_cache", "follow_up"),
                                     {"post": repr(post), "expected_invocations": expected_invocations,
                                      "completed_calls": [k for k, _ in done]}))
        if post[3][2] != 0 or post[3][1] != post[2][1]:
            info["problems"].append(("C18.cache_unusable_after_cancel", ("lru_cache", "not_cached"), {"post": repr(post)}))


def run_cprop(prep, st, sim, info, cancel_at):
    L = lib()
    runs = []
    lock_type = make_lock_type(sim, prep.lock_policy, prep.lock_acq, False)

    class Holder:
        @L.cached_property(lock_type)
        async def attr(self):
            rec = ["running"]
            runs.append(rec)
            try:
                for _ in range(prep.susp[len(runs) % 3]):
                    await sim.suspend(PAUSE, None, "getter")
            except Cancel:
                rec[0] = "cancelled"
                raise
            rec[0] = "ok"
            return ["value", len(runs)]

    inst = Holder()
    got = []

    async def awaiter(i):
        try:
            got.append((i, await inst.attr))
        except Cancel as err:
            if i == 0:
                info["leaving"] = err
            raise

    async def deleter(pauses):
        for _ in range(pauses):
            await sim.suspend(PAUSE, None, "deleter")
        try:
            del inst.attr
            info["detail"]["deleted_in_flight"] = any(r[0] == "running" for r in runs)
        except AttributeError:
            pass

    tasks = [sim.spawn(awaiter(0))]
    if prep.second:
        tasks.append(sim.spawn(awaiter(1)))
    if prep.deleter is not None:
        sim.spawn(deleter(prep.deleter))
    info["target"] = tasks[0]
    if cancel_at:
        sim.cancel_plan[tasks[0].id] = cancel_at
    run_sim(sim)
    info["detail"].update({"second_awaiter": prep.second, "deleter_pauses": prep.deleter, "getter_runs": [r[0] for r in runs]})
    if sim.deadlock or sim.capped:
        return
    for lk in sim.locks:
        if lk.misuse:
            info["problems"].append(("C18.lock_misused", ("cached_property", lk.misuse[0][0]), {"misuse": lk.misuse}))
            break
        if lk.owner is not None or lk.waiters:
            info["problems"].append(("C18.lock_held_after_cancel", ("cached_property",), {}))
            break
    if prep.second and not tasks[1].done:
        info["problems"].append(("C18.sibling_never_finished", ("cached_property",), {}))
    post = []

    async def follow():
        n0 = len(runs)
        v1 = await inst.attr
        n1 = len(runs)
        v2 = await inst.attr
        post.extend([v1, v2, n1 - n0, len(runs) - n1])

    t2 = sim.spawn(follow())
    run_sim(sim)
    if t2.error is not None or len(post) != 4:
        info["problems"].append(("C18.property_unusable_after_cancel", ("cached_property",), {"error": repr(t2.error)}))
    else:
        if post[0] is not post[1] or post[3] != 0:
            info["problems"].append(("C18.property_unusable_after_cancel", ("cached_property", "not_cached"), {}))
        cancelled_value = any(r[0] == "cancelled" for r in runs)
        ok_runs = sum(1 for r in runs if r[0] == "ok")
        if ok_runs == 0:
            info["problems"].append(("C18.property_unusable_after_cancel", ("cached_property", "never_computed"), {}))


def run_stack(prep, st, sim, info, cancel_at):
    L = lib()
    log = []
    counts = {}

    stack_box = []

    def exit_logic(name, behave, ev):
        counts[name] = counts.get(name, 0) + 1
        log.append(("exit", name, ev))
        if behave == 1:
            return True
        if behave == 2:
            raise InjectedFault(name)
        if behave == 3 and ev is not None:
            # e.g. a transaction that queues its rollback only when it fails
            late = name + "+"

            async def late_exit(et, ev2, tb):
                log.append(("exit_begin", late, ev2))
                return False

            stack_box[0].push(late_exit)
            registered.append(late)
        return False

    def make(i, kind, susp, behave):
        name = "e%d" % i

        class CM:
            async def __aenter__(self):
                log.append(("enter", name))
                for _ in range(susp):
                    await sim.suspend(PAUSE, None, "enter")
                log.append(("entered", name))
                return name

            async def __aexit__(self, et, ev, tb):
                log.append(("exit_begin", name, ev))
                for _ in range(susp):
                    await sim.suspend(PAUSE, None, "exit")
                return exit_logic(name, behave, ev)

        async def exit_fn(et, ev, tb):
            log.append(("exit_begin", name, ev))
            for _ in range(susp):
                await sim.suspend(PAUSE, None, "exit")
            return exit_logic(name, behave, ev)

        async def callback():
            log.append(("exit_begin", name, None))
            for _ in range(susp):
                await sim.suspend(PAUSE, None, "exit")
            return exit_logic(name, 0 if behave == 1 else behave, None)

        class SyncCM:
            def __enter__(self):
                log.append(("enter", name))
                log.append(("entered", name))
                return name

            def __exit__(self, et, ev, tb):
                log.append(("exit_begin", name, ev))
                return exit_logic(name, behave, ev)

        def plain_callback():
            log.append(("exit_begin", name, None))
            return exit_logic(name, 0 if behave == 3 else behave, None)

        return name, (CM(), exit_fn, callback, SyncCM(), plain_callback)[kind]

    registered = []
    objs = [make(i, k, s, b) for i, (k, s, b) in enumerate(prep.entries)]

    async def block():
        the_stack = L.ExitStack()
        if getattr(prep, "reused", False):
            async def failing_exit(et, ev, tb):
                raise InjectedFault("first use")

            try:
                async with the_stack:
                    the_stack.push(failing_exit)
            except InjectedFault:
                pass
        try:
            async with the_stack as stack:
                stack_box.append(stack)
                for (name, obj), (kind, _, _) in zip(objs, prep.entries):
                    if kind in (0, 3):
                        await stack.enter_context(obj)
                    elif kind == 1:
                        stack.push(obj)
                    else:
                        stack.callback(obj)
                    registered.append(name)
                for _ in range(prep.body_susp):
                    await sim.suspend(PAUSE, None, "body")
                if prep.block_raises:
                    raise InjectedFault("block")
        except Cancel as err:
            info["leaving"] = err
            raise
        except InjectedFault:
            pass

    task = sim.spawn(block())
    info["target"] = task
    if cancel_at:
        sim.cancel_plan[task.id] = cancel_at
    run_sim(sim)
    info["detail"].update({"entries": prep.entries, "log": [repr(e) for e in log], "registered": list(registered)})
    if sim.deadlock or sim.capped:
        return
    for name in registered:
        c = counts.get(name, 0)
        begun = sum(1 for e in log if e[0] == "exit_begin" and e[1] == name)
        if begun != 1:
            info["problems"].append(("C18.exit_not_run_exactly_once", ("ExitStack", "ran=%d" % begun), {"entry": name}))
            break
    for name, obj in objs:
        if name not in registered and any(e[0] == "exit_begin" and e[1] == name for e in log):
            info["problems"].append(("C18.exit_without_registration", ("ExitStack",), {"entry": name}))
    cancel = sim.cancel_sent
    if cancel is not None and sim.cancel_fired_at and sim.cancel_fired_at[2] in ("body", "enter"):
        # every exit registered at that moment is pending: the innermost gets the cancellation itself,
        # outer ones get it unless an inner exit replaced or suppressed it
        # the unwinding rule: exits run in reverse order of registration, each handed the exception in flight
        # (callbacks nothing); a truthy exit suppresses it, a raising one replaces it, a late registration runs next
        by_name = {"e%d" % i: ent for i, ent in enumerate(prep.entries)}
        first_wave = [n_ for n_ in registered if not n_.endswith("+")]
        exc = cancel
        todo = list(first_wave)
        expected = []
        while todo:
            name = todo.pop()
            kind, _susp, behave = by_name.get(name, (1, 0, 0))
            recv = None if kind in (2, 4) else exc
            expected.append((name, recv))
            if kind in (2, 4):
                behave = 0 if behave in (1, 3) else behave  # callbacks can neither suppress nor see the exception
            if behave == 1 and exc is not None:
                exc = None
            elif behave == 2:
                exc = ("fault", name)
            elif behave == 3 and recv is not None:
                todo.append(name + "+")
        observed = [(e[1], ("fault", e[2].tag) if isinstance(e[2], InjectedFault) else e[2]) for e in log if e[0] == "exit_begin"]
        if observed != expected:
            info["problems"].append(("C18.exits_not_run_as_the_unwinding_rule_says", ("ExitStack",),
                                     {"observed": repr(observed), "expected": repr(expected)}))


def run_prepared(prep, st, ctx):
    out = Outcome()
    out.fault_free = False
    c = 1 + st.faults.draw(max(prep.n_susp, 1))
    # what is thrown in is the loop's choice: a bare BaseException subclass, or one that is also an instance of an
    # ordinary exception class (AttributeError, KeyError, ...) which library code may be catching for other reasons
    ctype = CANCEL_TYPES[st.faults.draw(len(CANCEL_TYPES))]
    sim, info = run_once(prep, st, c, (0, 0, 5, 2)[prep.interrupt], ctype)
    target = info["target"]
    fired = sim.cancel_sent is not None
    sig = (prep.cls,)

    def describe():
        return dict(info["detail"], cls=prep.cls, cancel_at=c, thrown_in=ctype.__name__, suspension_points=prep.n_susp,
                    fired_at=sim.cancel_fired_at, task_error=repr(target.error))

    if sim.deadlock:
        out.violate("C18.deadlock", sig, describe())
    elif not sim.capped:
        if fired:
            if target.error is not sim.cancel_sent:
                swallowed = "suppressed" if target.error is None else type(target.error).__name__
                # an ExitStack exit that suppresses / replaces is the user's doing
                user_did = prep.cls == "stack" and any(b in (1, 2) for _, _, b in prep.entries)
                if not user_did:
                    out.violate("C18.cancellation_not_propagated", sig + (swallowed,), describe())
            elif info["leaving"] is not None and info["leaving"] is not sim.cancel_sent:
                out.violate("C18.different_exception_left_operation", sig, describe())
        elif target.error is not None:
            out.violate("C18.task_failed", sig + (type(target.error).__name__,), describe())
        for clause, psig, detail in info["problems"][:2]:
            out.violate(clause, psig, dict(describe(), **detail))
    if fired and sim.cancel_fired_at:
        out.faults["cancel"] = 1
        _, kind, party = sim.cancel_fired_at
        party = str(party)
        if kind == 2:
            out.probes["cancel_at_lock_wait"] = 1
        elif party == "getter":
            out.probes["cancel_in_getter"] = 1
        elif party == "wrapped":
            out.probes["cancel_in_wrapped"] = 1
        elif party == "exit":
            out.probes["cancel_in_exit_callback"] = 1
        elif party == "enter":
            out.probes["cancel_in_enter"] = 1
        elif party == "body":
            out.probes["cancel_in_block_body"] = 1
        elif "f" in party and party.lstrip("abc").startswith("f"):
            out.probes["cancel_in_callable"] = 1
        elif party.lstrip("abc").startswith("s"):
            out.probes["cancel_in_source"] = 1
    cname = {"scoped": "class_scoped_iter", "op": "class_agg" if getattr(prep, "is_agg", False) else "class_tool", "tee": "class_tee",
             "lru": "class_lru", "cprop": "class_cached_property", "stack": "class_exitstack",
             "group": "class_groupby_group"}[prep.cls]
    out.probes[cname] = 1
    out.nontrivial = fired
    out.shape = (prep.cls, tuple(st.scenario.rec[:60]), c)
    if ctx.want_sample:
        out.sample = describe()
    if ctx.want_log:
        out.log = [repr(info["detail"]), sim.trace]
    return finish_outcome(out, st, sim, ctx)


def execute(st, ctx):
    prep = prepare(st.scenario)
    out = run_prepared(prep, st, ctx)
    out.lists = st.recorded()
    return out


def explore(st, ctx):
    return enumerate_faults(st, ctx, prepare, run_prepared, fault_lists)
