"""
C19 - asynctools adapters normalise every async shape to the same plain result.

any_iter / await_each / apply / sync driven inside the simulator with awaitables that log when
they are entered and left and that suspend; co-tenant adapters interleave.
"""

import functools

from ..actors import InjectedFault
from ..loop import PAUSE
from ..runner import Outcome
from ..tools import lib
from .common import COMPONENTS_BASE, run_sim, new_sim, finish_outcome

PID = "C19"
LEVEL = "exploration"
BUDGET = {"quick": 300000, "thorough": 6000000}
RULE = (
    "each run draws 1..3 co-tenant adapter scenarios: any_iter over {plain, awaitable} x {list, iterator, async "
    "iterator} x {plain, awaitable items} of 0..6 items with consumer steps 0..len+1 (and up to three further requests after the end, each answered with the end); await_each over 0..6 logging, "
    "suspending awaitables (hand-written awaitables or coroutines) with consumer steps; apply with 0..4 positional "
    "and 0..3 keyword awaitables (one may resolve to a coroutine object, which the function must receive untouched); sync over def / async def / partial / callable objects / functools.wraps of the other kind, returning or raising. "
    "Oracle: plain-data reference (the item list, func(*values, **values), f's result or the same exception object, "
    "`sync(f) is f` for coroutine functions) and ordering of the await log against the consumer's requests "
    "(await_each: awaitable i entered only after request i began, never overlapping, nothing beyond the request). "
    "Non-trivial: an awaitable layer is present and >=1 item/argument; distinct = distinct scenario tuples."
    " Extensions of rounds 9-12: requests after the end, argument values that are coroutine objects, functools.wraps of the other kind, bound method after its function, partial keyword overridden, generator-based coroutines."
)
COMPONENTS = COMPONENTS_BASE
ASSUMPTIONS = ["awaitables log their own entry/exit; items are plain integers tagged per scenario"]
PROBES = ("apply_same_awaitable_twice", "any_iter_awaitable_outer", "any_iter_awaitable_items", "any_iter_async_iterator", "await_each_partial",
          "apply_keywords", "sync_coroutine_function_unchanged", "sync_raises", "sync_callable_object", "sync_sometimes_awaitable",
          "asked_again_after_the_end", "apply_value_is_a_coroutine_object", "sync_wraps_of_the_other_kind",
          "sync_bound_method_after_its_function", "sync_partial_keyword_overridden", "generator_based_coroutine")


class Aw:
    """Hand-written awaitable: logs enter/exit, suspends n times, resolves to value or raises"""

    def __init__(self, sim, log, name, n, value, exc=None):
        self.sim, self.log, self.name, self.n, self.value, self.exc = sim, log, name, n, value, exc

    def __await__(self):
        self.log.append(("enter", self.name))
        self.entered = getattr(self, "entered", 0) + 1
        for _ in range(self.n):
            yield from self.sim.suspend(PAUSE, None, "awaitable").__await__()
        self.log.append(("exit", self.name))
        if self.exc is not None:
            raise self.exc
        if callable(self.value):
            return self.value(self.entered)
        return self.value


class AwFuture(Aw):
    """Like asyncio.Future: awaitable *and* iterable (``__iter__ = __await__``)"""

    def __iter__(self):
        return self.__await__()


def make_awaitable(sim, log, name, n, value, coro, exc=None):
    if coro == 2:
        return AwFuture(sim, log, name, n, value, exc)
    aw = Aw(sim, log, name, n, value, exc)
    if not coro:
        return aw
    if coro == 3:
        # a generator-based coroutine (types.coroutine: what curio / trio style traps are made of): awaitable by
        # the language's rules, though it has no __await__
        import types

        @types.coroutine
        def gen_based():
            return (yield from aw.__await__())

        return gen_based()

    async def as_coro():
        return await aw

    return as_coro()


# --------------------------------------------------------------------------- any_iter
def gen_any_iter(ch):
    sc = {"kind": "any_iter", "outer_aw": ch.draw(2), "container": ch.draw(6), "item_aw": ch.draw(2),
          "n": ch.draw(7), "susp": [ch.draw(3) for _ in range(3)], "coro": ch.draw(3)}
    sc["steps"] = ch.draw(sc["n"] + 2) if ch.chance(3, 4) else sc["n"] + 1 + ch.between(1, 3)
    return sc


async def run_any_iter(sc, sim, res, tag):
    L = lib()
    log = res["log"]
    values = [(tag, i) for i in range(sc["n"])]
    if sc["item_aw"]:
        items = [make_awaitable(sim, log, ("item", i), sc["susp"][i % 3], values[i], sc["coro"]) for i in range(sc["n"])]
    else:
        items = list(values)
        if sc["n"] and sc["susp"][2] == 2:
            # plain items that are *classes* whose instances are awaitable (the class itself is not): data like any other
            for i in range(0, sc["n"], 2):
                items[i] = values[i] = (Aw, AwFuture)[i % 4 == 0]
    if sc["container"] == 0:
        inner = list(items)
    elif sc["container"] == 1:
        inner = iter(list(items))
    else:
        async def agen():
            for it in items:
                if sc["susp"][0]:
                    await sim.suspend(PAUSE, None, "stream")
                yield it

        if sc["container"] == 2:
            inner = agen()
        elif sc["container"] == 3:
            # an async iterable that is not its own iterator
            class Stream:
                def __aiter__(self):
                    return agen()

            inner = Stream()
        elif sc["container"] == 5:
            # an async iterable that also offers the blocking protocol (with less in it): the async side counts
            class DualStream:
                def __aiter__(self):
                    return agen()

                def __iter__(self):
                    return iter(items[:1])

            inner = DualStream()
        else:
            # a class-based async iterator
            class Cursor:
                def __init__(self):
                    self.i = 0

                def __aiter__(self):
                    return self

                async def __anext__(self):
                    if sc["susp"][0]:
                        await sim.suspend(PAUSE, None, "stream")
                    if self.i >= len(items):
                        raise StopAsyncIteration
                    self.i += 1
                    return items[self.i - 1]

            inner = Cursor()
    if sc["outer_aw"]:
        outer = make_awaitable(sim, log, ("outer",), sc["susp"][1], inner, sc["coro"])
    else:
        outer = inner
    it = L.any_iter(outer)
    res["type_ok"] = hasattr(it, "__anext__") and hasattr(it, "__aiter__")
    got = []
    for k in range(sc["steps"]):
        log.append(("request", k))
        try:
            got.append(await it.__anext__())
        except StopAsyncIteration:
            # the end is final: asking again gives the end again, however often
            got.append("stop")
    res["got"] = got
    res["expected"] = (values + ["stop"] * 4)[: sc["steps"]]
    await it.aclose()
    # unconsumed coroutine items would warn when dropped: close them
    for x in items:
        if hasattr(x, "close"):
            x.close()
    if sc["outer_aw"] and hasattr(outer, "close"):
        outer.close()


# --------------------------------------------------------------------------- await_each
def gen_await_each(ch):
    sc = {"kind": "await_each", "n": ch.draw(7), "susp": [ch.draw(3) for _ in range(3)], "coro": ch.draw(4),
          "container": ch.draw(2)}
    sc["steps"] = ch.draw(sc["n"] + 2) if ch.chance(3, 4) else sc["n"] + 1 + ch.between(1, 3)
    return sc


async def run_await_each(sc, sim, res, tag):
    L = lib()
    log = res["log"]
    values = [(tag, i) for i in range(sc["n"])]
    aws = [make_awaitable(sim, log, ("item", i), sc["susp"][i % 3], values[i], sc["coro"]) for i in range(sc["n"])]
    pulled = [0]

    class CountingIter:
        def __init__(self, seq):
            self.seq = iter(seq)

        def __iter__(self):
            return self

        def __next__(self):
            pulled[0] += 1
            return next(self.seq)

    source = list(aws) if sc["container"] == 0 else CountingIter(list(aws))
    it = L.await_each(source)
    res["type_ok"] = hasattr(it, "__anext__") and hasattr(it, "__aiter__")
    got = []
    for k in range(sc["steps"]):
        log.append(("request", k))
        try:
            got.append(await it.__anext__())
        except StopAsyncIteration:
            got.append("stop")
            continue
        log.append(("received", k))
    res["got"] = got
    res["expected"] = (values + ["stop"] * 4)[: sc["steps"]]
    await it.aclose()
    # closing the adapter early must not touch what the consumer never asked for
    asked = min(sc["steps"], sc["n"] + 1)
    if sc["container"] == 1 and pulled[0] > asked:
        res["overpull"] = "source pulled %d times for %d requests" % (pulled[0], asked)
    import inspect
    for i, x in enumerate(aws):
        if i >= sc["steps"] and inspect.iscoroutine(x) and inspect.getcoroutinestate(x) != "CORO_CREATED":
            res["overpull"] = "awaitable %d (never requested) was started or closed by the adapter" % i
    for x in aws:
        if hasattr(x, "close"):
            x.close()


def check_await_each_order(log):
    """awaitable i entered only after request i began; never overlapping; nothing beyond the request"""
    requested = -1
    open_ = None
    for e in log:
        if e[0] == "request":
            requested = e[1]
        elif e[0] == "enter" and e[1][0] == "item":
            i = e[1][1]
            if open_ is not None:
                return "overlapping awaits: %r entered while %r is open" % (i, open_)
            if i > requested:
                return "awaitable %d entered before the consumer asked for item %d" % (i, i)
            if i < requested:
                return "awaitable %d entered late (request %d)" % (i, requested)
            open_ = i
        elif e[0] == "exit" and e[1][0] == "item":
            open_ = None
    return None


# --------------------------------------------------------------------------- apply
def gen_apply(ch):
    return {"kind": "apply", "npos": ch.draw(5), "nkw": ch.draw(4), "susp": [ch.draw(3) for _ in range(3)],
            "coro": ch.draw(4), "fails": ch.chance(1, 6), "shared": ch.chance(1, 4),
            # keyword names, some of them names the adapter may use for its own parameters
            "names": [ch.draw(8) for _ in range(3)],
            # the function: def | async def | partial(async def) | object whose call returns an awaitable -
            # apply returns *the function's result*, which for the last three is an awaitable left to the caller
            # 4: a C-implemented callable without an introspectable signature (max)
            "func": ch.weighted([6, 2, 2, 2, 1]),
            # the value one argument resolves to is itself a coroutine object: a value like any other, handed on untouched
            "nested": ch.weighted([5, 1, 1])}


async def run_apply(sc, sim, res, tag):
    L = lib()
    log = res["log"]
    pos_vals = [(tag, "p", i) for i in range(sc["npos"])]
    pool = ("k0", "k1", "func", "self", "args", "kwargs", "function", "cls")
    names = []
    for i in range(sc["nkw"]):
        nm = pool[sc["names"][i] % len(pool)]
        names.append(nm if nm not in names else "k%d" % (i + 2))
    kw_vals = {nm: (tag, "k", i) for i, nm in enumerate(names)}
    if not (sc["shared"] and sc["npos"] + sc["nkw"] >= 2):
        pos = [make_awaitable(sim, log, ("pos", i), sc["susp"][i % 3], pos_vals[i], sc["coro"]) for i in range(sc["npos"])]
        kws = {k: make_awaitable(sim, log, ("kw", k), sc["susp"][j % 3], v, sc["coro"])
               for j, (k, v) in enumerate(kw_vals.items())}
    else:
        # one re-awaitable object passed for every parameter: it is awaited once per parameter, in order
        shared = Aw(sim, log, ("shared",), sc["susp"][0], lambda n: (tag, "shared", n))
        pos = [shared] * sc["npos"]
        kws = {k: shared for k in kw_vals}
        pos_vals = [(tag, "shared", i + 1) for i in range(sc["npos"])]
        kw_vals = {k: (tag, "shared", sc["npos"] + j + 1) for j, k in enumerate(kw_vals)}
        res["shared"] = True
    nested = None
    if sc.get("nested") and not res.get("shared") and sc.get("func", 0) != 4:
        async def deep():
            log.append(("nested_value_was_run",))
            return (tag, "deep")

        if sc["nested"] == 1 and pos:
            if hasattr(pos[0], "close"):
                pos[0].close()
            nested = deep()
            pos_vals[0] = "the coroutine object itself"
            pos[0] = make_awaitable(sim, log, ("pos", 0), sc["susp"][0], nested, sc["coro"])
        elif sc["nested"] == 2 and kws:
            k0 = next(iter(kw_vals))
            if hasattr(kws[k0], "close"):
                kws[k0].close()
            nested = deep()
            kw_vals[k0] = "the coroutine object itself"
            kws[k0] = make_awaitable(sim, log, ("kw", k0), sc["susp"][0], nested, sc["coro"])
        if nested is not None:
            res["nested"] = True
    fault = InjectedFault("apply")

    def func(*args, **kwargs):
        if sc["fails"]:
            raise fault
        if nested is not None:
            # identity, not representation: the log must not depend on addresses
            args = tuple("the coroutine object itself" if a is nested else a for a in args)
            kwargs = {k: ("the coroutine object itself" if a is nested else a) for k, a in kwargs.items()}
        return ("result", args, tuple(sorted(kwargs.items())))

    async def afunc(*args, **kwargs):
        log.append(("func_body",))
        return func(*args, **kwargs)

    async def afunc2(_marker, *args, **kwargs):
        return await afunc(*args, **kwargs)

    class FuncObj:
        def __call__(self, /, *args, **kwargs):
            return Aw(sim, log, ("func_result",), 1, lambda n: func(*args, **kwargs))

    if sc.get("func", 0) == 4 and not sc["fails"] and sc["npos"] >= 2 and not kws and not res.get("shared"):
        aw = L.apply(max, *pos)
        res["type_ok"] = hasattr(aw, "__await__")
        res["got"] = ("ok", await aw)
        res["expected"] = ("ok", max(pos_vals))
        return
    target = (func, afunc, functools.partial(afunc2, None), FuncObj(), func)[sc.get("func", 0)]
    aw = L.apply(target, *pos, **kws)
    res["type_ok"] = hasattr(aw, "__await__")
    try:
        value = await aw
        if sc.get("func", 0) in (1, 2, 3):
            # the function's own result: an awaitable that nobody has entered yet
            if not hasattr(value, "__await__") or ("func_body",) in log or ("enter", ("func_result",)) in log:
                res["got"] = ("function_result_was_awaited_by_apply", repr(value))
                res["expected"] = ("the awaitable the function returned",)
                return
            value = await value
        res["got"] = ("ok", value)
    except InjectedFault as err:
        res["got"] = ("raised", err is fault)
    if nested is not None:
        if ("nested_value_was_run",) in log:
            res["got"] = ("a coroutine object that was an argument's value has been run by apply", res["got"])
        nested.close()
    res["expected"] = ("raised", True) if sc["fails"] else ("ok", ("result", tuple(pos_vals), tuple(sorted(kw_vals.items()))))


# --------------------------------------------------------------------------- sync
SYNC_FAULTS = (InjectedFault, TypeError, ValueError, KeyError, AttributeError)


def gen_sync(ch):
    # flavour 6: a plain def that returns an awaitable on some calls and a plain value on others
    # flavours 7/8: an async generator function (and a partial of one): calling it gives an async generator - the result
    # flavour 9: a plain def carrying functools.wraps of a coroutine function (it runs things itself) - a plain callable
    # flavour 10: an async def carrying functools.wraps of a plain function - a coroutine function
    # flavour 11: a bound method, after sync() was used on the plain function it is a method of
    # flavours 12 / 13: a partial of a plain / coroutine function whose preset keyword the call overrides
    return {"kind": "sync", "flavour": ch.draw(14), "fails": ch.chance(1, 3), "susp": ch.draw(3),
            "pattern": [ch.draw(2) for _ in range(ch.between(2, 4))], "fault": ch.draw(len(SYNC_FAULTS))}


async def run_sync(sc, sim, res, tag):
    L = lib()
    log = res["log"]
    fault = SYNC_FAULTS[sc["fault"]]("sync")
    fl = sc["flavour"]

    def plain(x, y=1):
        log.append(("called", x, y))
        if sc["fails"]:
            raise fault
        return ("r", x, y)

    async def coro_fn(x, y=1):
        log.append(("called", x, y))
        for _ in range(sc["susp"]):
            await sim.suspend(PAUSE, None, "fn")
        if sc["fails"]:
            raise fault
        return ("r", x, y)

    class Obj:
        def __call__(self, x, y=1):
            return coro_fn(x, y)

    class ObjPlain:
        def __call__(self, x, y=1):
            return plain(x, y)

    if fl == 6:
        calls = [0]

        def sometimes(x, y=1):
            k = calls[0]
            calls[0] += 1
            if sc["pattern"][k % len(sc["pattern"])]:
                return coro_fn(x, y)
            return plain(x, y)

        wrapped = L.sync(sometimes)
        res["same"] = wrapped is sometimes
        res["expect_same"] = False
        got = []
        for k in range(len(sc["pattern"])):
            aw = wrapped((tag, k))
            res["type_ok"] = hasattr(aw, "__await__")
            try:
                got.append(("ok", await aw))
            except SYNC_FAULTS as err:
                got.append(("raised", err is fault))
        res["got"] = got
        res["expected"] = [("raised", True) if sc["fails"] else ("ok", ("r", (tag, k), 1)) for k in range(len(sc["pattern"]))]
        return
    if fl in (7, 8):
        async def agen_fn(x, y=1):
            log.append(("called", x, y))
            yield ("r", x, y)

        f = agen_fn if fl == 7 else functools.partial(agen_fn, y=2)
        wrapped = L.sync(f)
        res["same"] = res["expect_same"] = False
        try:
            aw = wrapped(tag)
            res["type_ok"] = hasattr(aw, "__await__")
            value = await aw
            if not hasattr(value, "__anext__"):
                res["got"] = ("not_the_async_generator", repr(value))
            else:
                res["got"] = ("ok", [x async for x in value])
        except TypeError as err:
            res["got"] = ("raised", repr(err))
        res["expected"] = ("ok", [("r", tag, 1 if fl == 7 else 2)])
        return
    @functools.wraps(coro_fn)
    def plain_wrapping_coro(x, y=1):
        return plain(x, y)

    @functools.wraps(plain)
    async def coro_wrapping_plain(x, y=1):
        return await coro_fn(x, y)

    class Holder:
        def meth(self, x, y=1):
            if self is not holder:
                log.append(("wrong_self", repr(self)))
                return ("wrong self",)
            return plain(x, y)

    holder = Holder()
    if fl == 11:
        res["earlier"] = L.sync(Holder.meth)  # the history: the function itself went through sync() before
    f = (plain, coro_fn, functools.partial(coro_fn, y=2), Obj(), ObjPlain(), functools.partial(plain, y=2), None, None, None,
         plain_wrapping_coro, coro_wrapping_plain, holder.meth, functools.partial(plain, y=2),
         functools.partial(coro_fn, y=2))[fl]
    wrapped = L.sync(f)
    res["same"] = wrapped is f
    aw = wrapped(tag, **({} if fl in (2, 5) else {"y": 3} if fl in (12, 13) else {"y": 1}))
    res["type_ok"] = hasattr(aw, "__await__")
    try:
        res["got"] = ("ok", await aw)
    except SYNC_FAULTS as err:
        res["got"] = ("raised", err is fault)
    yv = 2 if fl in (2, 5) else 3 if fl in (12, 13) else 1
    res["expected"] = ("raised", True) if sc["fails"] else ("ok", ("r", tag, yv))
    res["expect_same"] = fl in (1, 2, 10, 13)


GENS = (gen_any_iter, gen_await_each, gen_apply, gen_sync)
RUNS = {"any_iter": run_any_iter, "await_each": run_await_each, "apply": run_apply, "sync": run_sync}


def execute(st, ctx):
    out = Outcome()
    ch = st.scenario
    sim = new_sim(st)
    n = 1 + ch.weighted([5, 3, 1])
    tenants = []
    for t in range(n):
        sc = GENS[ch.weighted([4, 3, 2, 2])](ch)
        res = {"log": [], "got": None, "expected": None, "type_ok": None}
        sim.spawn(RUNS[sc["kind"]](sc, sim, res, "T%d" % t))
        tenants.append((sc, res))
    run_sim(sim)
    nontrivial = False
    for (sc, res), task in zip(tenants, sim.tasks):
        kind = sc["kind"]
        sig = (kind,)

        def describe():
            return {"scenario": sc, "got": repr(res["got"]), "expected": repr(res["expected"]),
                    "log": [repr(e) for e in res["log"]][:60], "error": repr(task.error)}

        if sim.deadlock:
            out.violate("C19.deadlock", sig, describe())
            break
        if sim.capped:
            break
        if task.error is not None:
            out.violate("C19.adapter_failed", sig + (type(task.error).__name__,), describe())
            continue
        if res["got"] is None:
            out.violate("C19.did_not_finish", sig, describe())
            continue
        if res["type_ok"] is False:
            out.violate("C19.wrong_return_type", sig, describe())
        if res["got"] != res["expected"]:
            out.violate("C19.result_differs", sig, describe())
        if kind == "await_each":
            why = check_await_each_order(res["log"]) or res.get("overpull")
            if why:
                out.violate("C19.await_each_not_lazy_or_not_sequential", sig, dict(describe(), why=why))
            if sc["steps"] <= sc["n"] and sc["n"]:
                out.probes["await_each_partial"] = 1
            if sc["coro"] == 3 and sc["n"]:
                out.probes["generator_based_coroutine"] = 1
            if sc["steps"] > sc["n"] + 1:
                out.probes["asked_again_after_the_end"] = 1
            if sc["n"]:
                nontrivial = True
        elif kind == "any_iter":
            if sc["item_aw"]:
                # items are awaited one at a time, in order, only when requested
                why = check_await_each_order(res["log"])
                if why:
                    out.violate("C19.any_iter_awaits_ahead_or_overlapping", sig, dict(describe(), why=why))
            if sc["outer_aw"]:
                out.probes["any_iter_awaitable_outer"] = 1
            if sc["steps"] > sc["n"] + 1:
                out.probes["asked_again_after_the_end"] = 1
            if sc["item_aw"] and sc["n"]:
                out.probes["any_iter_awaitable_items"] = 1
            if sc["container"] == 2:
                out.probes["any_iter_async_iterator"] = 1
            if (sc["outer_aw"] or sc["item_aw"]) and sc["n"]:
                nontrivial = True
        elif kind == "apply":
            if sc["nkw"]:
                out.probes["apply_keywords"] = 1
            if res.get("shared"):
                out.probes["apply_same_awaitable_twice"] = 1
            if res.get("nested"):
                out.probes["apply_value_is_a_coroutine_object"] = 1
            if sc["npos"] + sc["nkw"]:
                nontrivial = True
        else:
            if res["same"] != res["expect_same"]:
                out.violate("C19.sync_identity", sig + ("flavour%d" % sc["flavour"],), describe())
            if res["same"]:
                out.probes["sync_coroutine_function_unchanged"] = 1
            if sc["fails"]:
                out.probes["sync_raises"] = 1
                out.faults["callable_raises"] = 1
                out.fault_free = False
            if sc["flavour"] in (3, 4):
                out.probes["sync_callable_object"] = 1
            if sc["flavour"] in (9, 10):
                out.probes["sync_wraps_of_the_other_kind"] = 1
            if sc["flavour"] == 11:
                out.probes["sync_bound_method_after_its_function"] = 1
            if sc["flavour"] in (12, 13):
                out.probes["sync_partial_keyword_overridden"] = 1
            if sc["flavour"] == 6 and len(set(sc["pattern"])) == 2:
                out.probes["sync_sometimes_awaitable"] = 1
            nontrivial = True
    out.nontrivial = nontrivial
    out.shape = tuple(tuple(sorted((k, repr(v)) for k, v in sc.items())) for sc, _ in tenants)
    if ctx.want_sample:
        out.sample = [{"scenario": sc, "got": repr(res["got"]), "log": [repr(e) for e in res["log"]][:30]}
                      for sc, res in tenants]
    if ctx.want_log:
        out.log = [[res["log"], repr(res["got"])] for _, res in tenants] + [sim.trace]
    return finish_outcome(out, st, sim, ctx)


def explore(st, ctx):
    return [execute(st, ctx)]
