"""
C20 - streaming tools retain a bounded number of items however long the stream.

Long streams (50..2000) of fresh weak-referenceable items flow through each streaming tool and
single-pass aggregation; the consumer drops everything it receives.  After every consumer step
(aggregations: before every pull) the number of source items still alive must stay below
4 * (#sources) + the tool's documented window.
"""

import weakref

from ..actors import Item, keyof
from ..loop import PAUSE
from ..runner import Outcome
from ..tools import lib
from .common import COMPONENTS_BASE, run_sim, new_sim, finish_outcome

PID = "C20"
LEVEL = "exploration"
BUDGET = {"quick": 40000, "thorough": 500000}
RULE = (
    "each run draws a streaming tool (zip map filter filterfalse enumerate accumulate batched chain compress "
    "dropwhile takewhile islice pairwise starmap zip_longest merge tee (also a tee of a tee child) groupby chain.from_iterable "
    "any_iter / await_each over plain or awaitable items) or a single-pass aggregation (all any sum "
    "min max reduce nlargest nsmallest), 1..3 streams of 50..6000 fresh items (async generator or class-based "
    "iterator, suspending every k-th pull), window parameters, and for tee a seeded pattern of child progress and "
    "early closes. Oracle at every consumer step / source pull: live weakrefs among delivered items <= 4*sources + "
    "window (batch size, n of nlargest/nsmallest, 1 per source for merge, lead of the fastest over the slowest live "
    "child for tee, 0 otherwise). Non-trivial: >=50 items passed through; distinct = distinct (tool, parameters, "
    "lengths, flavours, progress pattern)."
    " Extensions of rounds 9-12: any tee child may be the survivor; long islice strides; the tee object closed with lagging children while references are kept."
    " Round 13: plateaus and low-cardinality streams for best-of tools, class-based streams without aclose."
)
COMPONENTS = COMPONENTS_BASE
ASSUMPTIONS = [
    "CPython reference counting frees unreferenced items immediately (gc disabled during the run)",
    "the constant 4 per source is deliberately generous (current item, previous item, tuple under construction, one in flight)",
    "cycle, sorted, the collection builders and lagging tee children are exempt as documented",
]
PROBES = ("tee_step_created_and_dropped", "tee_of_tee_child", "awaitable_items", "tee_child_failed_and_abandoned", "lazy_sequence_source", "len>=800", "tee_lagging_child_closed", "tee_object_closed_with_lagging_children", "aggregation", "multi_source", "window_tool")

TOOLS = ("zip", "map", "filter", "filterfalse", "enumerate", "accumulate", "batched", "chain", "compress",
         "dropwhile", "takewhile", "islice", "pairwise", "starmap", "zip_longest", "merge", "tee", "groupby", "chain_from_iterable",
         "any_iter", "await_each", "all", "any", "sum", "min", "max", "reduce", "nlargest", "nsmallest")
AGGS = ("all", "any", "sum", "min", "max", "reduce", "nlargest", "nsmallest")


class Counter:
    __slots__ = ("alive", "delivered", "peak", "over", "bound", "dead")

    def __init__(self):
        self.alive = 0
        self.delivered = 0
        self.peak = 0
        self.over = None
        self.bound = 10 ** 9


class Light:
    """Cheap weak-referenceable, ordered item"""

    __slots__ = ("key", "__weakref__")

    def __init__(self, key):
        self.key = key

    def __lt__(self, other):
        return self.key < other.key

    def __eq__(self, other):
        return self.key == other.key

    def __hash__(self):
        return hash(self.key)

    def __bool__(self):
        return True

    def __add__(self, other):
        return Light(self.key + (other.key if type(other) is Light else other))

    def __radd__(self, other):
        return Light(other + self.key)


class TransientError(Exception):
    pass


def make_stream(sim, cnt, length, flavour, every, keyfn, wrap=None, check_on_pull=False, fault_at=None, noclose=False):
    """Fresh items; nothing but the consumer side can keep them alive"""
    fault_at = [fault_at]

    def on_dead(_ref, cnt=cnt):
        cnt.alive -= 1

    refs = []

    def produce(i):
        item = Light(keyfn(i))
        out_ = item if wrap is None else wrap(item)
        # what is tracked is the object handed out if it can be tracked (a chunk), else the item inside it
        tracked = out_ if (wrap is not None and hasattr(type(out_), "__weakref__")) else item
        refs.append(weakref.ref(tracked, on_dead))
        cnt.alive += 1
        cnt.delivered += 1
        if cnt.alive > cnt.peak:
            cnt.peak = cnt.alive
        return out_

    def check():
        # one item is about to be produced: everything delivered so far is judged
        if cnt.alive > cnt.bound and cnt.over is None:
            cnt.over = (cnt.alive, cnt.delivered)

    if flavour == 2:
        import collections.abc

        class LazySeq(collections.abc.Sequence):
            """A real Sequence that creates its items on demand and keeps none of them"""

            def __len__(self):
                return length

            def __getitem__(self, i):
                if not 0 <= i < length:
                    raise IndexError(i)
                if check_on_pull:
                    check()
                return produce(i)

        return LazySeq(), refs
    if flavour == 0:
        async def agen():
            for i in range(length):
                if every and i % every == 0:
                    await sim.suspend(PAUSE, None, "stream")
                if check_on_pull:
                    check()
                hold = [produce(i)]
                yield hold.pop()
        return agen(), refs

    class It:
        def __init__(self):
            self.i = 0

        def __aiter__(self):
            return self

        async def __anext__(self):
            i = self.i
            if i >= length:
                raise StopAsyncIteration
            if i == fault_at[0]:
                fault_at[0] = None
                raise TransientError(i)  # transient: the iterator keeps producing afterwards
            self.i = i + 1
            if every and i % every == 0:
                await sim.suspend(PAUSE, None, "stream")
            if check_on_pull:
                check()
            return produce(i)

        async def aclose(self):
            self.i = length

    if noclose:
        del It.aclose  # a minimal async iterator: __aiter__ and __anext__, nothing to close
    return It(), refs


def gen(ch):
    sc = {"tool": TOOLS[ch.draw(len(TOOLS))]}
    sc["length"] = (50, 120, 300, 800, 2000, 6000)[ch.weighted([12, 10, 6, 4, 2, 1])]
    sc["flavour"] = ch.weighted([4, 4, 1])  # async generator | class-based async iterator | lazy sync Sequence
    sc["every"] = (0, 1, 7, 50)[ch.draw(4)]
    sc["noclose"] = sc["flavour"] == 1 and ch.chance(1, 3)
    sc["nsrc"] = 1
    t = sc["tool"]
    if t == "await_each":
        sc["flavour"] = 2  # takes a synchronous iterable of awaitables
    if t in ("zip", "map", "zip_longest", "merge", "chain"):
        sc["nsrc"] = ch.between(1, 3)
    if t == "compress":
        sc["nsrc"] = 2
    sc["n"] = ch.between(1, 40)  # batch size / n of nlargest / islice step
    sc["gb"] = (ch.draw(3), ch.draw(3))  # groupby: key (none | item itself | derived), consumption (keys | peek | all)
    sc["lens"] = [max(10, sc["length"] - ch.draw(40)) for _ in range(sc["nsrc"])]
    if t == "zip_longest" and sc["nsrc"] >= 2 and ch.chance(1, 2):
        # very unequal lengths: most sources have ended long before the longest one
        sc["lens"] = [max(10, sc["length"] // (1, 3, 4)[s]) for s in range(sc["nsrc"])]
    sc["strict"] = t == "zip" and ch.chance(1, 2)
    if sc["strict"]:
        sc["lens"] = [sc["lens"][0]] * sc["nsrc"]
    sc["keyed"] = t in ("nlargest", "nsmallest", "min", "max") and ch.chance(1, 2)
    sc["chunks"] = t == "sum" and ch.chance(1, 3)   # sum over list chunks with a list start
    if t == "tee":
        sc["transient_at"] = ch.draw(sc["length"]) if ch.chance(1, 4) else None
        sc["children"] = ch.between(2, 4)
        sc["lead"] = ch.between(1, 30)
        # a tee of a tee child: the source is first split in 1..2, the first of those is split again;
        # all leaves (the inner children and the remaining outer ones) are consumers
        sc["outer"] = ch.between(1, 2) if ch.chance(1, 4) else 0
        total = sc["children"] + max(0, sc["outer"] - 1)
        sc["close_at"] = [ch.draw(sc["length"]) if ch.chance(1, 3) else None for _ in range(total)]
        # one child (any of them) runs to the end; the others may be closed early, in any order
        sc["close_at"][ch.draw(total) if ch.chance(1, 2) else 0] = None
        if ch.chance(1, 4):
            # one child is closed before it was ever advanced - after its first step was created and thrown away
            sc["close_at"][total - 1] = 0
        sc["abandon_step"] = ch.chance(1, 2)
        sc["pattern"] = [ch.draw(total) for _ in range(16)]
        # after that many steps the tee object itself is closed (all children at once, lagging ones included) while the
        # consumer keeps its references to the tee and its children: nothing stays buffered
        sc["handle_close_at"] = ch.draw(sc["length"]) if ch.chance(1, 4) else None
    return sc


def execute(st, ctx):
    out = Outcome()
    sc = gen(st.scenario)
    sim = new_sim(st)
    L = lib()
    cnt = Counter()
    tool = sc["tool"]
    nsrc = sc["nsrc"]
    is_agg = tool in AGGS
    window = 0
    if tool == "batched":
        window = sc["n"]
    elif tool in ("nlargest", "nsmallest"):
        window = sc["n"]
    elif tool == "merge":
        window = nsrc
    elif tool == "pairwise":
        window = 1
    elif tool == "chain_from_iterable":
        window = 1 + sc["n"] % 7  # one member (a small container of items) at a time
    base = 4 * nsrc + window
    cnt.bound = base

    if tool == "merge":
        keyfn = lambda i: i  # noqa: E731  (pre-sorted)
    elif tool in ("min", "nsmallest", "max", "nlargest"):
        sign = -1 if tool in ("min", "nsmallest") else 1
        shape = sc["length"] % 3
        if shape == 0:
            keyfn = lambda i: sign * i  # noqa: E731  (every item is a new best: worst case for retention)
        elif shape == 1:
            keyfn = lambda i: sign * min(i, 12)  # noqa: E731  (a short climb, then a long plateau of ties with the best)
        else:
            keyfn = lambda i: sign * (i % 5)  # noqa: E731  (few distinct values: ties with the cut-off all the time)
    elif tool == "groupby":
        keyfn = lambda i: i // (1, 2, 3, 200)[sc["n"] % 4]  # noqa: E731  (many short runs, or long ones)
    else:
        keyfn = lambda i: i % 5  # noqa: E731
    wrap = (lambda item: (item, item)) if tool == "starmap" else None
    if tool in ("any_iter", "await_each") and (sc["n"] % 2 or tool == "await_each"):
        # the stream's items are awaitables (resolving to a fresh item each): data to be resolved and let go
        class Promise:
            __slots__ = ("item", "__weakref__")

            def __init__(self, item):
                self.item = item

            def __await__(self):
                if sc["n"] % 3 == 0:
                    yield from sim.suspend(PAUSE, None, "promise").__await__()
                return self.item

        wrap = Promise
    streams = []
    all_refs = []
    transient = sc.get("transient_at") if (tool == "tee" and sc["flavour"] == 1) else None
    if tool == "sum" and sc.get("chunks"):
        # list chunks (weak-referenceable list subclass) summed onto a list start: the chunks must not pile up
        class Chunk(list):
            __slots__ = ("__weakref__",)

        wrap = lambda item: Chunk([item.key])  # noqa: E731
    for s in range(nsrc):
        kf = keyfn
        if tool == "merge":
            # interleaved (block 1) up to fully partitioned inputs (one source keeps winning for a whole block)
            block = (1, 1, 10, 100, 10 ** 6)[sc["n"] % 5]
            kf = lambda i, s=s, block=block: (i // block) * block * nsrc + s * block + i % block  # noqa: E731
        stream, refs = make_stream(sim, cnt, sc["lens"][s], sc["flavour"], sc["every"], kf, wrap, check_on_pull=is_agg,
                                   fault_at=transient, noclose=sc.get("noclose", False))
        streams.append(stream)
        all_refs.append(refs)
    res = {"steps": 0, "end": None, "error": None, "tee_bound_max": 0}

    async def truthy(x):
        return True

    def second(a, b):
        return b

    async def keyof_(x):
        return x.key

    async def consumer():
        n = sc["n"]
        if is_agg:
            S = streams[0]
            if tool == "all":
                aw = L.all(S)
            elif tool == "any":
                aw = L.any(L.map(lambda x: False, S))
            elif tool == "sum":
                aw = L.sum(S, []) if sc.get("chunks") else L.sum(S)
            elif tool == "min":
                aw = L.min(S, key=keyof_) if sc.get("keyed") else L.min(S)
            elif tool == "max":
                aw = L.max(S, key=truthy) if sc["every"] == 7 else (L.max(S, key=keyof_) if sc.get("keyed") else L.max(S))
            elif tool == "reduce":
                aw = L.reduce(second, S)
            elif tool == "nlargest":
                aw = L.nlargest(S, n, key=keyof_) if sc.get("keyed") else L.nlargest(S, n)
            else:
                aw = L.nsmallest(S, n, key=keyof_) if sc.get("keyed") else L.nsmallest(S, n)
            value = await aw
            del value
            res["end"] = "value"
            return
        if tool == "tee":
            if sc.get("outer"):
                outer_handle = L.tee(streams[0], sc["outer"])
                handle = L.tee(outer_handle[0], sc["children"])
                children = list(handle) + list(outer_handle)[1:]
                out.probes["tee_of_tee_child"] = 1
            else:
                handle = L.tee(streams[0], sc["children"])
                children = list(handle)
            counts = [0] * len(children)
            live = [True] * len(children)
            k = 0
            while any(live):
                if sc.get("handle_close_at") is not None and k >= sc["handle_close_at"]:
                    if sc.get("outer"):
                        await outer_handle.aclose()
                    await handle.aclose()
                    live = [False] * len(children)
                    out.probes["tee_object_closed_with_lagging_children"] = 1
                    res["steps"] += 1
                    if cnt.alive > base and cnt.over is None:
                        cnt.over = (cnt.alive, cnt.delivered, "after the tee object was closed")
                    break
                c = sc["pattern"][k % 16]
                k += 1
                if not live[c]:
                    c = next(i for i in range(len(live)) if live[i])
                lo = min(counts[i] for i in range(len(live)) if live[i])
                if counts[c] - lo >= sc["lead"] and counts[c] != lo:
                    c = next(i for i in range(len(live)) if live[i] and counts[i] == lo)
                if sc["close_at"][c] is not None and counts[c] >= sc["close_at"][c]:
                    if sc.get("abandon_step"):
                        # a step that was asked for and dropped before it ever ran
                        step = children[c].__anext__()
                        step.close()
                        del step
                        out.probes["tee_step_created_and_dropped"] = 1
                    await children[c].aclose()
                    live[c] = False
                    out.probes["tee_lagging_child_closed"] = 1
                else:
                    try:
                        item = await children[c].__anext__()
                        del item
                        counts[c] += 1
                    except StopAsyncIteration:
                        live[c] = False
                    except TransientError:
                        # the child that hit the error is dropped by its consumer: neither closed nor polled again;
                        # its generator is finished, so it is not a live child any more
                        live[c] = False
                        out.probes["tee_child_failed_and_abandoned"] = 1
                alive_counts = [counts[i] for i in range(len(live)) if live[i]]
                # what the fastest child (finished or not) has fetched and the slowest live child has not yielded
                lead = (max(counts) - min(alive_counts)) if alive_counts else 0
                bound = base + lead
                res["steps"] += 1
                if cnt.alive > bound and cnt.over is None:
                    cnt.over = (cnt.alive, cnt.delivered, "lead=%d" % lead)
            res["end"] = "stop"
            return
        S = streams
        if tool == "chain_from_iterable":
            size = 1 + sc["n"] % 7
            inner = S[0]
            del S

            async def members():
                # lazily supplied container members: lists (or tuples) of fresh items
                batch = []
                async for item in L.iter(inner):
                    batch.append(item)
                    del item
                    if len(batch) == size:
                        yield batch if sc["every"] != 7 else tuple(batch)
                        batch = []
                if batch:
                    yield batch

            it = L.chain.from_iterable(members())
            async for item in it:
                del item
                res["steps"] += 1
                if cnt.alive > cnt.bound and cnt.over is None:
                    cnt.over = (cnt.alive, cnt.delivered)
            res["end"] = "stop"
            return
        if tool == "groupby":
            keysel, consume = sc["gb"]
            if keysel == 0:
                gb = L.groupby(S[0])
            elif keysel == 1:
                gb = L.groupby(S[0], lambda x: x)
            else:
                gb = L.groupby(S[0], lambda x: x.key)
            del S
            async for key, group in gb:
                del key
                if consume == 1:
                    async for item in group:
                        del item
                        break
                elif consume == 2:
                    async for item in group:
                        del item
                del group
                res["steps"] += 1
                if cnt.alive > cnt.bound and cnt.over is None:
                    cnt.over = (cnt.alive, cnt.delivered)
            res["end"] = "stop"
            return
        if tool == "zip":
            it = L.zip(*S, strict=True) if sc.get("strict") else L.zip(*S)
        elif tool == "map":
            it = L.map(lambda *a: len(a), *S)
        elif tool == "filter":
            it = L.filter(truthy, S[0])
        elif tool == "filterfalse":
            it = L.filterfalse(lambda x: x.key == 1, S[0])
        elif tool == "enumerate":
            it = L.enumerate(S[0])
        elif tool == "accumulate":
            it = L.accumulate(S[0], second)
        elif tool == "batched":
            it = L.batched(S[0], n)
        elif tool == "chain":
            it = L.chain(*S)
        elif tool == "compress":
            it = L.compress(S[0], S[1])
        elif tool == "dropwhile":
            it = L.dropwhile(lambda x: x.key < 3, S[0])
        elif tool == "takewhile":
            it = L.takewhile(truthy, S[0])
        elif tool == "islice":
            # (the stride may be long: what is skipped is dropped item by item, not gathered)
            it = L.islice(S[0], n, None, (1 + n % 3) if n % 2 else n)
        elif tool == "pairwise":
            it = L.pairwise(S[0])
        elif tool == "starmap":
            it = L.starmap(lambda a, b: 0, S[0])
        elif tool == "zip_longest":
            it = L.zip_longest(*S)
        elif tool == "any_iter":
            it = L.any_iter(S[0])
        elif tool == "await_each":
            it = L.await_each(S[0])
        else:
            it = L.merge(*S)
        del S
        anext_ = it.__anext__
        while True:
            try:
                item = await anext_()
            except StopAsyncIteration:
                res["end"] = "stop"
                break
            del item
            res["steps"] += 1
            if cnt.alive > cnt.bound and cnt.over is None:
                cnt.over = (cnt.alive, cnt.delivered)

    task = sim.spawn(consumer())
    run_sim(sim)
    sig = (tool,)

    def describe():
        return {"scenario": sc, "bound": base, "window": window, "peak_alive": cnt.peak, "delivered": cnt.delivered,
                "over": cnt.over, "end": res["end"], "error": repr(task.error)}

    if sim.deadlock:
        out.violate("C20.deadlock", sig, describe())
    elif not sim.capped:
        if task.error is not None:
            out.violate("C20.consumer_failed", sig + (type(task.error).__name__,), describe())
        elif res["end"] is None:
            out.violate("C20.did_not_finish", sig, describe())
        if cnt.over is not None:
            out.violate("C20.retention_grows", sig, describe())
    if sc["length"] >= 800:
        out.probes["len>=800"] = 1
    if sc["flavour"] == 2:
        out.probes["lazy_sequence_source"] = 1
    if is_agg:
        out.probes["aggregation"] = 1
    if nsrc > 1:
        out.probes["multi_source"] = 1
    if window:
        out.probes["window_tool"] = 1
    if tool in ("any_iter", "await_each") and wrap is not None:
        out.probes["awaitable_items"] = 1
    out.nontrivial = cnt.delivered >= 50
    out.shape = tuple(sorted((k, repr(v)) for k, v in sc.items()))
    if ctx.want_sample:
        out.sample = describe()
    if ctx.want_log:
        out.log = [cnt.peak, cnt.delivered, res["steps"], res["end"], len(sim.trace)]
    out = finish_outcome(out, st, sim, ctx)
    out.trace = (hash(tuple(sim.trace)),)
    return out


def explore(st, ctx):
    return [execute(st, ctx)]
