"""Helpers shared by the per-property checks"""

from ..actors import World, Item
from ..loop import Sim, GcGuard
from ..vclock import VCLOCK
from ..runner import Outcome
from ..tools import TOOLS, AGGS, Gen, ABSENT, draw_cfg, TOOL_NAMES, AGG_NAMES
from ..tooldiff import Run

COMPONENTS_BASE = {
    "real": ["asyncstdlib (all modules, unmodified, imported from the working tree under test)",
             "CPython 3.12 builtins / itertools / heapq / functools / contextlib as reference implementations",
             "CPython async generators, coroutines, async-with statement, asyncgen finaliser hooks"],
    "stub": ["event loop: aslsim.loop.Sim (seeded scheduler, virtual clock, token protocol)",
             "locks: aslsim.loop.SimLock (plain mutex driven by the simulator)",
             "wall clock: aslsim.vclock (time.monotonic/time/perf_counter/process_time and _ns twins answer with a virtual "
             "clock inside a run; slow sources let virtual seconds pass); the pinned library never reads it"],
    "workload": ["streams, callables, context managers, getters: generated per run from the scenario stream"],
}
COMPONENTS_AIO = dict(
    COMPONENTS_BASE,
    real=COMPONENTS_BASE["real"] + [
        "on backend B runs (20-25% of the runs, probe backend_asyncio): asyncio.Task / Future / call_at machinery, "
        "asyncio.Lock and Task.cancel()/CancelledError delivery of CPython 3.12"],
    stub=COMPONENTS_BASE["stub"] + [
        "backend B: aslsim.aioloop.DetLoop, an asyncio.BaseEventLoop subclass with a virtual clock; suspension lengths "
        "are drawn from the schedule stream, the ready queue stays FIFO"],
)


def run_sim(sim):
    """Run the simulation with the asyncgen finaliser hook installed and gc off"""
    sim.install()
    VCLOCK.active = True
    try:
        sim.run()
    finally:
        VCLOCK.active = False
        sim.uninstall()
    if sim.capped or sim.deadlock:
        sim.close_leftovers()


# C17 re-runs the other workloads with an interrupt at (almost) every suspension
FORCE_INTERRUPT_DEN = [None]


def set_interrupts(sim, den):
    sim.interrupt_den = den if FORCE_INTERRUPT_DEN[0] is None else FORCE_INTERRUPT_DEN[0]


# C17 (tokens, tripwires) must never run on the asyncio backend
FORCE_BACKEND = [__import__("os").environ.get("VERIF_BACKEND") or None]  # VERIF_BACKEND=aio|sim forces one backend


def pick_backend(ch, num=1, den=5):
    """Draws whether this run uses backend B (deterministic asyncio); the draw always happens"""
    aio = ch.chance(num, den)
    if FORCE_BACKEND[0] is not None:
        return FORCE_BACKEND[0]
    return "aio" if aio else "sim"


def make_lock(sim, policy=0, acquire_suspends=False, release_suspends=False):
    """A lock *type* for this backend: SimLock stub, or the real asyncio.Lock on backend B"""
    if getattr(sim, "backend", None) == "asyncio":
        from ..aioloop import make_aio_lock_type

        return make_aio_lock_type(sim, policy, acquire_suspends, release_suspends)
    from ..loop import make_lock_type

    return make_lock_type(sim, policy, acquire_suspends, release_suspends)


def new_sim(st, interrupts=True, max_steps=20000, backend="sim"):
    VCLOCK.reset()
    if backend == "aio":
        from ..aioloop import AioSim

        sim = AioSim(st.schedule, max_steps=max_steps)
        sim.faults = st.schedule
        return sim
    sim = Sim(st.schedule, max_steps=max_steps)
    sim.faults = st.schedule  # interrupts are drawn from the schedule stream
    if interrupts:
        set_interrupts(sim, (0, 0, 5, 2)[st.scenario.draw(4)])
    return sim


def finish_outcome(out, st, sim, ctx):
    if out.log is not None and not isinstance(out.log, str):
        # freeze the event log now: objects torn down after the run (abandoned generators, deadlocked tasks,
        # asyncio's shutdown_asyncgens over a WeakSet) append further events in an order that is the
        # interpreter's business, not the run's
        out.log = repr(out.log)
    if getattr(sim, "backend", None) == "asyncio":
        sim.close()
        out.probes["backend_asyncio"] = 1
    out.lists = st.recorded()
    out.steps = sim.seq
    out.sim_time = sim.now
    out.trace = sim.trace
    out.capped = sim.capped
    if getattr(sim, "n_yielded", 0) != getattr(sim, "n_received", 0):
        # a user awaitable suspended (yielded its token) and what it yielded never arrived at the loop:
        # somebody in between drove it by hand
        sim.breach("token_never_reached_loop", sim.n_yielded - sim.n_received)
    out.breaches = len(sim.breaches)
    if sim.breaches:
        out.probes["c17_breach_seen"] = 1
        out.breach_detail = sim.breaches[:3]
    f = out.faults
    f["interrupt_absorbed"] = sim.n_interrupts_absorbed
    f["suspension"] = sim.n_tokens
    f["asyncgen_finalizer"] = sim.n_finalizers
    if VCLOCK.reads:
        out.probes["code_under_test_read_the_clock"] = 1
    if sim.n_interrupts:
        out.fault_free = False
    return out


def spec_nontrivial(spec):
    """>=1 tie, unequal lengths or a non-default parameter"""
    keys = []
    lens = set()
    for s in spec.srcs:
        lens.add(len(s.items))
        for i in s.items:
            if type(i) is Item:
                keys.append(i.key)
    if len(keys) != len(set(keys)) or len(lens) > 1:
        return True
    for v in spec.p.values():
        if v is not ABSENT and v is not False and v is not None and v != 0 and v != ():
            return True
    return any(f is not None for f in spec.fns)


def gen_tool(st, cfg, prefix="", names=TOOL_NAMES):
    ch = st.scenario
    g = Gen(ch, cfg, prefix)
    name = names[ch.draw(len(names))]
    return TOOLS[name].gen(g), g


def gen_agg(st, cfg, prefix="", names=AGG_NAMES):
    ch = st.scenario
    g = Gen(ch, cfg, prefix)
    name = names[ch.draw(len(names))]
    return AGGS[name].gen(g), g


def bounded_steps(ch, spec, extra=2):
    """Number of consumer steps for tools that never end"""
    n = sum(len(s.items) for s in spec.srcs)
    return ch.draw(2 * n + extra + 1)


def enumerate_faults(st, ctx, prepare, run_prepared, fault_lists):
    """
    Fault enumeration over one sampled scenario: ``prepare`` draws the scenario from the scenario
    stream, ``fault_lists(prep)`` gives one faults-stream list per position, every position is run
    with a schedule stream of its own.  Each outcome carries complete replayable choice lists.
    """
    from ..choice import Chooser, Streams

    prep = prepare(st.scenario)
    scen_rec = list(st.scenario.rec)
    outs = []
    rng = st.schedule.rng
    first = True
    for flist in fault_lists(prep, st.faults):
        sub = Streams(st.scenario, Chooser(replay=flist), Chooser(rng.getrandbits(62)))
        out = run_prepared(prep, sub, ctx if first else _NO_SAMPLE)
        out.lists = [scen_rec, list(sub.faults.rec), list(sub.schedule.rec)]
        outs.append(out)
        first = False
    return outs


class _NoSample:
    want_sample = False
    want_log = False
    tier = "quick"


_NO_SAMPLE = _NoSample()
