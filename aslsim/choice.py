"""
Choice streams (DESIGN.md section 4).

One integer decides everything: ``VERIF_SEED``, the property id and the run index give the
run seed; three independent recorded streams are derived from it:

    scenario  what is built        faults  where failures/cancels/closes land
    schedule  every pick of the loop, every lock hand-off, every delay

A run is a pure function of the three recorded integer lists and the code.  For every draw
``0`` is the simplest choice, so shrinking = deleting / zeroing / lowering entries.
"""

import hashlib
import random


def run_seed(verif_seed, pid, index, stream):
    h = hashlib.sha256(("%d/%s/%d/%s" % (verif_seed, pid, index, stream)).encode()).digest()
    return int.from_bytes(h[:8], "big")


class Chooser:
    __slots__ = ("rng", "replay", "pos", "rec", "_random")

    def __init__(self, seed=None, replay=None):
        if replay is None:
            self.rng = random.Random(seed)
            self._random = self.rng.random
            self.replay = None
        else:
            self.rng = None
            self._random = None
            self.replay = list(replay)
        self.pos = 0
        self.rec = []

    def draw(self, n):
        """An integer in [0, n); n <= 1 consumes nothing"""
        if n <= 1:
            return 0
        replay = self.replay
        if replay is None:
            v = int(self._random() * n)
        else:
            pos = self.pos
            if pos < len(replay):
                v = replay[pos]
                if v >= n:
                    v = n - 1
                elif v < 0:
                    v = 0
            else:
                v = 0
            self.pos = pos + 1
        self.rec.append(v)
        return v

    def chance(self, num, den):
        """True with probability num/den; the value 0 (simplest) means False"""
        return self.draw(den) >= den - num

    def pick(self, seq):
        return seq[self.draw(len(seq))]

    def weighted(self, weights):
        """Index drawn with the given integer weights; index 0 is the simplest"""
        total = sum(weights)
        v = self.draw(total)
        acc = 0
        for i, w in enumerate(weights):
            acc += w
            if v < acc:
                return i
        return len(weights) - 1

    def between(self, lo, hi):
        """Integer in [lo, hi]"""
        return lo + self.draw(hi - lo + 1)


class Streams:
    """The three streams of one run"""

    __slots__ = ("scenario", "faults", "schedule")

    def __init__(self, scenario, faults, schedule):
        self.scenario = scenario
        self.faults = faults
        self.schedule = schedule

    @classmethod
    def generate(cls, verif_seed, pid, index):
        return cls(
            Chooser(run_seed(verif_seed, pid, index, "scenario")),
            Chooser(run_seed(verif_seed, pid, index, "faults")),
            Chooser(run_seed(verif_seed, pid, index, "schedule")),
        )

    @classmethod
    def replay(cls, lists):
        return cls(
            Chooser(replay=lists[0]), Chooser(replay=lists[1]), Chooser(replay=lists[2])
        )

    def recorded(self):
        return [list(self.scenario.rec), list(self.faults.rec), list(self.schedule.rec)]


def shrink(lists, still_fails, max_replays=500):
    """
    Greedy minimisation of the three recorded lists.

    ``still_fails(lists) -> lists_actually_consumed | None``: replays and returns the lists
    as re-recorded by the replay (normalised, possibly shorter) if the same violation class
    persists, else None.
    """
    budget = [max_replays]

    def attempt(cand):
        if budget[0] <= 0:
            return None
        budget[0] -= 1
        return still_fails(cand)

    best = [list(x) for x in lists]
    got = attempt(best)
    if got is None:
        return best, False
    best = got
    improved = True
    while improved and budget[0] > 0:
        improved = False
        for s in range(3):
            # delete spans
            for span in (8, 4, 2, 1):
                i = 0
                while i < len(best[s]) and budget[0] > 0:
                    cand = [list(x) for x in best]
                    del cand[s][i:i + span]
                    got = attempt(cand)
                    if got is not None and _size(got) < _size(best):
                        best = got
                        improved = True
                    else:
                        i += span
            # zero spans / lower values
            i = 0
            while i < len(best[s]) and budget[0] > 0:
                if best[s][i] != 0:
                    cand = [list(x) for x in best]
                    cand[s][i] = 0
                    got = attempt(cand)
                    if got is not None and _size(got) <= _size(best) and got != best:
                        best = got
                        improved = True
                    elif best[s][i] > 1:
                        cand = [list(x) for x in best]
                        cand[s][i] = best[s][i] // 2
                        got = attempt(cand)
                        if got is not None and _size(got) <= _size(best) and got != best:
                            best = got
                            improved = True
                i += 1
    return best, True


def _size(lists):
    return (sum(len(x) for x in lists), sum(sum(x) for x in lists))
