"""
Deterministic cooperative scheduler ("the simulator", DESIGN.md section 3).

Everything the properties can depend on goes through here:

* which task runs next            -> ``schedule.draw``
* how long a user awaitable stalls -> virtual clock, discrete event time
* cancellation / EINTR-like throws -> ``Sim.cancel_plan`` / ``Sim.interrupt_den``
* lock hand-off order             -> ``SimLock`` (policy drawn from the schedule stream)
* async generator finalisation    -> ``sys.set_asyncgen_hooks`` + gc disabled

A user awaitable suspends by ``await sim.suspend(...)``.  That yields a *Token*
to the loop; the loop answers with the token's private reply object.  Anything
else that reaches the loop, or any other answer reaching the token, is recorded
as a breach of the loop protocol (property C17).
"""

import gc
import sys
from heapq import heappush, heappop
from traceback import clear_frames

PAUSE, SLEEP, LOCKWAIT = 0, 1, 2
KIND_NAMES = ("pause", "sleep", "lock_wait")


class Cancel(BaseException):
    """Cancellation thrown by the simulator into a suspended task (unique instance)"""

    def __init__(self, serial):
        BaseException.__init__(self, serial)
        self.serial = serial

    def __repr__(self):
        return "Cancel(%d)" % self.serial


def _cancel_variant(name, other):
    """A cancellation that is *also* an instance of an ordinary exception class (what is thrown in is the loop's choice)"""
    return type(name, (Cancel, other), {"__doc__": "Cancel that is also a %s" % other.__name__})


CANCEL_TYPES = (Cancel, _cancel_variant("CancelAttributeError", AttributeError), _cancel_variant("CancelKeyError", KeyError),
                _cancel_variant("CancelTypeError", TypeError), _cancel_variant("CancelRuntimeError", RuntimeError),
                _cancel_variant("CancelValueError", ValueError))


# what a consumer has to catch to see a cancellation on either backend (token loop / asyncio)
import asyncio as _asyncio  # noqa: E402

CANCEL = (Cancel, _asyncio.CancelledError)


class Interrupt(BaseException):
    """EINTR analogue: thrown at a suspension point, absorbed by the token"""

    def __init__(self, serial):
        BaseException.__init__(self, serial)
        self.serial = serial


class Reply:
    __slots__ = ("serial",)

    def __init__(self, serial):
        self.serial = serial


class ReplyError(Exception):
    """A reply that happens to be an exception instance: a value like any other - it is sent, never raised"""

    def __init__(self, serial):
        Exception.__init__(self, serial)
        self.serial = serial


class Token:
    """The only thing a user awaitable of the simulation yields to the loop"""

    __slots__ = (
        "sim", "serial", "task", "kind", "arg", "live", "reply",
        "interrupts", "expect_interrupt", "party",
    )

    def __init__(self, sim, serial, task, kind, arg, party):
        self.sim = sim
        self.serial = serial
        self.task = task
        self.kind = kind
        self.arg = arg
        self.live = True
        self.reply = Reply(serial) if serial % 4 else ReplyError(serial)
        self.interrupts = 0
        self.expect_interrupt = None
        self.party = party

    def __await__(self):
        sim = self.sim
        while True:
            try:
                sim.n_yielded += 1
                got = yield self
            except Interrupt as exc:
                if exc is not self.expect_interrupt:
                    sim.breach("interrupt_not_delivered_unchanged", self.serial)
                self.expect_interrupt = None
                self.interrupts += 1
                sim.n_interrupts_absorbed += 1
                continue
            except Cancel as exc:
                self.live = False
                if sim.cancel_sent is not None and exc is sim.cancel_sent:
                    sim.cancel_arrived = True
                raise
            except BaseException as exc:
                self.live = False
                if exc is self.reply:
                    sim.breach("reply_thrown_instead_of_sent", self.serial)
                raise
            if self.expect_interrupt is not None:
                # the loop threw an interrupt but the token received a send
                sim.breach("interrupt_lost", self.serial)
                self.expect_interrupt = None
            if got is not self.reply:
                sim.breach("reply_not_delivered_unchanged", self.serial)
            self.live = False
            return None


class Task:
    __slots__ = (
        "id", "name", "coro", "state", "send_value", "throw_exc", "result", "error",
        "nsusp", "token", "wake", "is_finalizer", "steps", "cancelled_with",
    )

    # states
    RUNNABLE, SLEEPING, LOCKWAIT, DONE = 0, 1, 2, 3

    def __init__(self, tid, name, coro):
        self.id = tid
        self.name = name
        self.coro = coro
        self.state = Task.RUNNABLE
        self.send_value = None
        self.throw_exc = None
        self.result = None
        self.error = None
        self.nsusp = 0  # number of suspensions (distinct tokens yielded) so far
        self.token = None
        self.wake = 0
        self.is_finalizer = False
        self.steps = 0
        self.cancelled_with = None

    @property
    def done(self):
        return self.state == Task.DONE


class Deadlock(Exception):
    pass


class Sim:
    """One simulated execution"""

    def __init__(self, schedule, max_steps=20000):
        self.schedule = schedule
        self.max_steps = max_steps
        self.tasks = []
        self.current = None
        self.now = 0
        self.seq = 0  # global sequence number == number of steps taken
        self.serial = 0
        self.sleepers = []
        self.log = []  # shared event log of the run
        self.trace = []  # (task id, token kind) per step: the interleaving
        self.breaches = []  # C17 protocol breaches
        self.cancel_type = Cancel  # class of the exception thrown in as cancellation (a Cancel subclass)
        self.n_tokens = 0
        self.n_yielded = 0   # times a user awaitable yielded its token ...
        self.n_received = 0  # ... and times the loop got one: equal unless somebody else drove an awaitable
        self.n_interrupts = 0
        self.n_interrupts_absorbed = 0
        self.n_finalizers = 0
        self.n_foreign = 0
        self.deadlock = False
        self.capped = False
        self.step_hooks = []
        # fault plans
        self.cancel_plan = {}  # task id -> suspension index (1-based) at which to cancel
        self.cancel_sent = None
        self.cancel_arrived = False
        self.cancel_fired_at = None  # (task id, token kind, party)
        self.interrupt_den = 0  # 0 = off, else 1/den chance per resume (faults stream)
        self.faults = None
        self.locks = []
        self._old_hooks = None

    # ------------------------------------------------------------------ tokens
    def suspend(self, kind=PAUSE, arg=None, party=None):
        self.serial += 1
        self.n_tokens += 1
        return Token(self, self.serial, self.current, kind, arg, party)

    def breach(self, what, detail=None):
        self.breaches.append((what, detail, self.seq))

    # ------------------------------------------------------------------ tasks
    def spawn(self, coro, name=None):
        task = Task(len(self.tasks), name or "t%d" % len(self.tasks), coro)
        self.tasks.append(task)
        return task

    def _finalizer(self, agen):
        self.n_finalizers += 1
        task = self.spawn(agen.aclose(), "fin%d" % self.n_finalizers)
        task.is_finalizer = True

    def install(self):
        self._old_hooks = sys.get_asyncgen_hooks()
        sys.set_asyncgen_hooks(firstiter=None, finalizer=self._finalizer)

    def uninstall(self):
        if self._old_hooks is not None:
            sys.set_asyncgen_hooks(*self._old_hooks)
            self._old_hooks = None

    # ------------------------------------------------------------------ running
    def _runnable(self):
        plan = self.cancel_plan
        out = []
        for t in self.tasks:
            st = t.state
            if st == Task.RUNNABLE:
                out.append(t)
            elif st != Task.DONE and plan and plan.get(t.id) == t.nsusp:
                # a cancellation is due: the task can be resumed (with the throw)
                # even though it sleeps or waits for a lock
                out.append(t)
        return out

    def run(self):
        """Run until every task is done, a deadlock, or the step cap"""
        draw = self.schedule.draw
        while True:
            runnable = self._runnable()
            if not runnable:
                if self.sleepers:
                    wake, _, task = heappop(self.sleepers)
                    if task.state == Task.SLEEPING and task.wake == wake:
                        if wake > self.now:
                            self.now = wake
                        task.state = Task.RUNNABLE
                    continue
                if any(t.state != Task.DONE for t in self.tasks):
                    self.deadlock = True
                return
            if self.seq >= self.max_steps:
                self.capped = True
                return
            task = runnable[draw(len(runnable))] if len(runnable) > 1 else runnable[0]
            self.step(task)

    def step(self, task):
        self.seq += 1
        task.steps += 1
        self.current = task
        token = task.token
        coro = task.coro
        exc = task.throw_exc
        plan = self.cancel_plan
        try:
            if token is not None and plan and plan.get(task.id) == task.nsusp:
                # inject the cancellation at this suspension point
                del plan[task.id]
                self._leave_wait(task)
                cancel = self.cancel_type(self.serial + 1)
                self.cancel_sent = cancel
                task.cancelled_with = cancel
                self.cancel_fired_at = (task.id, token.kind, token.party)
                task.token = None
                got = coro.throw(cancel)
            elif exc is not None:
                task.throw_exc = None
                task.token = None
                got = coro.throw(exc)
            elif token is not None:
                if self.interrupt_den and token.interrupts < 2 and self.faults.draw(self.interrupt_den) == self.interrupt_den - 1:
                    self.n_interrupts += 1
                    intr = Interrupt(token.serial)
                    token.expect_interrupt = intr
                    try:
                        got = coro.throw(intr)
                    finally:
                        if token.expect_interrupt is intr:
                            # whatever happened, the throw never arrived at the awaitable that was suspended
                            token.expect_interrupt = None
                            self.breach("interrupt_not_delivered_to_awaitable", token.party)
                else:
                    task.token = None
                    got = coro.send(token.reply)
            else:
                got = coro.send(None)
        except StopIteration as stop:
            task.state = Task.DONE
            task.result = stop.value
            task.token = None
            self.trace.append(task.id * 4 + 3)
            self._after_step()
            return
        except BaseException as err:
            task.state = Task.DONE
            task.error = err
            # keep the exception object (identity matters) but not the frames it pins
            clear_frames(err.__traceback__)
            err.__traceback__ = None
            task.token = None
            self.trace.append(task.id * 4 + 3)
            self._after_step()
            return
        finally:
            self.current = None
        # the task suspended: classify what reached the loop
        if type(got) is Token and got.live and got.task is task and got.sim is self:
            self.n_received += 1
            if got is not token:
                task.nsusp += 1
            task.token = got
            kind = got.kind
            self.trace.append(task.id * 4 + kind)
            if kind == PAUSE:
                task.state = Task.RUNNABLE
            elif kind == SLEEP:
                task.state = Task.SLEEPING
                task.wake = self.now + got.arg
                heappush(self.sleepers, (task.wake, self.seq, task))
            else:
                lock = got.arg
                task.state = Task.RUNNABLE if lock.owner is task else Task.LOCKWAIT
        else:
            # a foreign object reached the loop: protocol breach (C17)
            self.n_foreign += 1
            self.breach("foreign_object_reached_loop", type(got).__name__)
            task.token = None
            task.nsusp += 1
            task.state = Task.RUNNABLE
            self.trace.append(task.id * 4)
        self._after_step()

    def _leave_wait(self, task):
        if task.state == Task.SLEEPING:
            task.wake = -1
        task.state = Task.RUNNABLE

    def _after_step(self):
        for hook in self.step_hooks:
            hook(self)

    def wake_lock_waiter(self, task):
        if task.state == Task.LOCKWAIT:
            task.state = Task.RUNNABLE

    # ------------------------------------------------------------------ helpers
    def close_leftovers(self):
        """Close coroutines of tasks that never finished (cap / deadlock)"""
        for t in self.tasks:
            if t.state != Task.DONE:
                try:
                    t.coro.close()
                except BaseException:
                    pass


class SimLockBase:
    """
    A plain non re-entrant mutex driven by the simulator.

    ``policy``: 0 FIFO hand-off, 1 hand-off to a waiter chosen by the schedule stream.
    ``acquire_suspends``: suspend once before even looking at the lock (legal for any lock).
    ``release_suspends``: suspend once after releasing.
    """

    sim = None
    policy = 0
    acquire_suspends = False
    release_suspends = False

    def __init__(self):
        self.owner = None
        self.waiters = []
        self.n_acquired = 0
        self.n_released = 0
        self.misuse = []
        self.sim.locks.append(self)
        self.lid = len(self.sim.locks) - 1

    async def __aenter__(self):
        sim = self.sim
        task = sim.current
        if self.acquire_suspends:
            await sim.suspend(PAUSE, None, "lock")
        if self.owner is task:
            self.misuse.append(("reacquire_by_owner", task.id))
            raise RuntimeError("SimLock: re-acquired by its owner (would deadlock)")
        if self.owner is None and not self.waiters:
            self.owner = task
        else:
            self.waiters.append(task)
            try:
                await sim.suspend(LOCKWAIT, self, "lock")
            except BaseException:
                if self.owner is task:
                    # cancelled after hand-off but before running: pass the lock on
                    self._release()
                else:
                    self.waiters.remove(task)
                raise
            if self.owner is not task:
                self.misuse.append(("woken_without_lock", task.id))
                raise RuntimeError("SimLock: woken without owning the lock")
        self.n_acquired += 1
        sim.log.append(("lock_acq", self.lid, task.id))
        return None

    def _release(self):
        sim = self.sim
        self.owner = None
        if self.waiters:
            if self.policy and len(self.waiters) > 1:
                nxt = self.waiters.pop(sim.schedule.draw(len(self.waiters)))
            else:
                nxt = self.waiters.pop(0)
            self.owner = nxt
            sim.wake_lock_waiter(nxt)

    async def __aexit__(self, exc_type, exc_val, exc_tb):
        sim = self.sim
        task = sim.current
        if self.owner is not task:
            self.misuse.append(("release_by_non_owner", task.id if task else None))
        else:
            self.n_released += 1
            sim.log.append(("lock_rel", self.lid, task.id))
            self._release()
        if self.release_suspends:
            await sim.suspend(PAUSE, None, "lock")
        return None


def make_lock_type(sim, policy=0, acquire_suspends=False, release_suspends=False):
    """A fresh lock *type* bound to ``sim`` (cached_property wants a type, tee an instance)"""
    return type(
        "SimLock",
        (SimLockBase,),
        dict(
            sim=sim,
            policy=policy,
            acquire_suspends=acquire_suspends,
            release_suspends=release_suspends,
        ),
    )


class GcGuard:
    """gc disabled while simulating; collections happen only at points fixed by the code"""

    def __enter__(self):
        self.was = gc.isenabled()
        gc.disable()
        return self

    def __exit__(self, *exc):
        if self.was:
            gc.enable()
        return False


def drive_sync(coro):
    """Drive a coroutine that must not suspend; returns (suspended?, value, error)"""
    from .vclock import VCLOCK

    VCLOCK.active = True
    try:
        got = coro.send(None)
    except StopIteration as stop:
        return False, stop.value, None
    except BaseException as err:
        return False, None, err
    finally:
        VCLOCK.active = False
    # it suspended: that is the observation; clean up
    try:
        coro.close()
    except BaseException:
        pass
    return True, got, None
