"""
Batch runner: seeded search over runs, minimisation, replay files, known findings, evidence.
(DESIGN.md sections 4, 6, 8)
"""

import faulthandler
import gc
import hashlib
import importlib
import json
import multiprocessing
import os
import subprocess
import sys
import time
import traceback
from collections import Counter
from concurrent.futures import ProcessPoolExecutor, as_completed

from .choice import Streams, shrink
from .vclock import VCLOCK

ENGINE_VERSION = 1
VERIF_DIR = os.path.dirname(os.path.dirname(os.path.abspath(__file__)))
CHUNK = 250


# --------------------------------------------------------------------------- tree under test
def repo_dir():
    return os.path.abspath(os.environ.get("VERIF_REPO", "/repo"))


def setup_repo_path():
    """Import asyncstdlib from the working tree under test, never from anywhere else"""
    sys.dont_write_bytecode = True
    repo = repo_dir()
    if sys.path[0] != repo:
        sys.path.insert(0, repo)
    for name in [m for m in sys.modules if m == "asyncstdlib" or m.startswith("asyncstdlib.")]:
        del sys.modules[name]
    from .vclock import install

    install()  # the clock seam goes in before the code under test can bind any clock function
    import asyncstdlib

    where = os.path.abspath(asyncstdlib.__file__)
    if not where.startswith(repo + os.sep):
        raise RuntimeError("asyncstdlib imported from %s, not from %s" % (where, repo))
    return repo


def repo_rev():
    repo = repo_dir()
    try:
        rev = subprocess.run(["git", "-C", repo, "rev-parse", "HEAD"], capture_output=True,
                             text=True, timeout=20).stdout.strip()
        dirty = subprocess.run(["git", "-C", repo, "status", "--porcelain", "--", "asyncstdlib"],
                               capture_output=True, text=True, timeout=20).stdout.strip()
    except Exception:  # pragma: no cover
        return {"rev": "unknown", "dirty": None}
    return {"rev": rev, "dirty": bool(dirty)}


# --------------------------------------------------------------------------- outcome of a run
class Violation:
    __slots__ = ("clause", "sig", "detail")

    def __init__(self, clause, sig, detail):
        self.clause = clause
        self.sig = tuple(sig)
        self.detail = detail

    def key(self):
        return (self.clause, self.sig)


class Outcome:
    __slots__ = ("violations", "nontrivial", "shape", "trace", "steps", "sim_time", "faults",
                 "probes", "sample", "lists", "capped", "breaches", "digest", "fault_free", "log",
                 "breach_detail")

    def __init__(self):
        self.violations = []
        self.nontrivial = False
        self.shape = None
        self.trace = ()
        self.steps = 0
        self.sim_time = 0
        self.faults = {}
        self.probes = {}
        self.sample = None
        self.lists = None
        self.capped = False
        self.breaches = 0
        self.digest = None
        self.fault_free = True
        self.log = None
        self.breach_detail = None

    def violate(self, clause, sig, detail):
        self.violations.append(Violation(clause, sig, detail))


class Ctx:
    """Per-execution options handed to a check"""

    __slots__ = ("want_sample", "want_log", "tier")

    def __init__(self, want_sample=False, want_log=False, tier="quick"):
        self.want_sample = want_sample
        self.want_log = want_log
        self.tier = tier


def h64(obj):
    return int.from_bytes(hashlib.blake2b(repr(obj).encode(), digest_size=8).digest(), "big")


def digest_of(outcome):
    return hashlib.sha256(repr((outcome.log, outcome.lists, [v.key() for v in outcome.violations]))
                          .encode()).hexdigest()


# --------------------------------------------------------------------------- known findings
def load_known():
    path = os.path.join(VERIF_DIR, "known_findings.json")
    try:
        with open(path) as fh:
            data = json.load(fh)
    except FileNotFoundError:
        return []
    return data.get("findings", [])


def match_known(known, pid, violation):
    for entry in known:
        if entry.get("status") != "known":
            continue
        if entry.get("property") != pid or entry.get("clause") != violation.clause:
            continue
        if tuple(entry.get("sig", ())) == violation.sig:
            return entry
    return None


# --------------------------------------------------------------------------- worker
def load_check(pid):
    return importlib.import_module("aslsim.checks." + pid.lower())


def _worker(args):
    pid, verif_seed, start, stop, tier, want_digests = args
    faulthandler.dump_traceback_later(900, exit=True)
    try:
        return _worker_inner(pid, verif_seed, start, stop, tier, want_digests)
    finally:
        faulthandler.cancel_dump_traceback_later()


def _worker_inner(pid, verif_seed, start, stop, tier, want_digests):
    setup_repo_path()
    check = load_check(pid)
    known = load_known()
    res = {
        "start": start, "evaluations": 0, "runs": 0, "shapes": set(), "traces": set(),
        "faults": Counter(), "probes": Counter(), "steps": 0, "sim_time": 0,
        "violations": [], "known": Counter(), "samples": [], "capped": 0, "breaches": 0,
        "fault_free": 0, "digests": [], "error": None,
    }
    seen_keys = set()
    lines_hit = None
    if start == 0 and not want_digests:
        lines_hit = _start_line_probe()
    gc.disable()
    try:
        for index in range(start, stop):
            streams = Streams.generate(verif_seed, pid, index)
            ctx = Ctx(want_sample=(index < start + 1 and start % (CHUNK * 8) == 0),
                      want_log=want_digests, tier=tier)
            VCLOCK.reset()
            outcomes = check.explore(streams, ctx)
            res["runs"] += 1
            for out in outcomes:
                res["evaluations"] += 1
                res["steps"] += out.steps
                res["sim_time"] += out.sim_time
                if out.capped:
                    res["capped"] += 1
                res["breaches"] += out.breaches
                if out.fault_free:
                    res["fault_free"] += 1
                if out.nontrivial and out.shape is not None:
                    res["shapes"].add(h64(out.shape))
                if out.trace:
                    res["traces"].add(hash(tuple(out.trace)))
                for k, v in out.faults.items():
                    if v:
                        res["faults"][k] += v
                for k, v in out.probes.items():
                    if v:
                        res["probes"][k] += v
                if out.sample is not None and len(res["samples"]) < 2:
                    res["samples"].append(out.sample)
                if want_digests:
                    res["digests"].append((index, digest_of(out)))
                for v in out.violations:
                    entry = match_known(known, pid, v)
                    if entry is not None:
                        res["known"][entry["id"]] += 1
                        continue
                    if v.key() in seen_keys:
                        continue
                    seen_keys.add(v.key())
                    if len(res["violations"]) < 4:
                        res["violations"].append({
                            "index": index, "clause": v.clause, "sig": list(v.sig),
                            "detail": v.detail, "lists": out.lists,
                        })
            if index % 64 == 63:
                gc.collect()
    except BaseException:
        res["error"] = "run index %d: %s" % (index, traceback.format_exc())
    finally:
        gc.enable()
        if lines_hit is not None:
            _stop_line_probe()
            res["lines"] = sorted(lines_hit)
    return res


# ---- reach measure: which lines of the library the first chunk of a batch executed (sys.monitoring, each line once)
_TOOL_ID = 3


def _start_line_probe():
    import sys as _sys

    mon = getattr(_sys, "monitoring", None)
    if mon is None:  # pragma: no cover
        return None
    hit = set()
    prefix = os.path.join(repo_dir(), "asyncstdlib") + os.sep

    def on_line(code, line):
        fn = code.co_filename
        if fn.startswith(prefix):
            hit.add((fn[len(prefix):], line))
        return mon.DISABLE

    try:
        mon.use_tool_id(_TOOL_ID, "aslsim-reach")
    except ValueError:
        return None
    mon.register_callback(_TOOL_ID, mon.events.LINE, on_line)
    mon.set_events(_TOOL_ID, mon.events.LINE)
    return hit


def _stop_line_probe():
    import sys as _sys

    mon = _sys.monitoring
    mon.set_events(_TOOL_ID, 0)
    mon.register_callback(_TOOL_ID, mon.events.LINE, None)
    mon.free_tool_id(_TOOL_ID)


def executable_lines(path):
    """Line numbers that carry code in a source file (from the compiled code objects)"""
    try:
        code = compile(open(path).read(), path, "exec")
    except Exception:  # pragma: no cover
        return set()
    out = set()
    todo = [code]
    while todo:
        co = todo.pop()
        for _, _, ln in co.co_lines():
            if ln is not None:
                out.add(ln)
        todo.extend(c for c in co.co_consts if hasattr(c, "co_lines"))
    return out


def anchor_file_coverage(pid, lines):
    """Per file anchored by the property: executed / executable lines (first chunk of the batch only)"""
    files = []
    try:
        for row in open(os.path.join(VERIF_DIR, "properties.jsonl")):
            prop = json.loads(row)
            if prop["id"] == pid:
                files = prop["anchors"]["files"]
    except Exception:  # pragma: no cover
        return {}
    byfile = {}
    for fn, ln in lines:
        byfile.setdefault(fn, set()).add(ln)
    out = {}
    for f in files:
        base = os.path.basename(f)
        execl = executable_lines(os.path.join(repo_dir(), f))
        # module level lines (imports, defs) run at import time, before the probe: count function bodies only
        hit = byfile.get(base, set()) & execl
        out[f] = {"lines_executed_in_first_chunk": len(hit), "executable_lines": len(execl)}
    return out


# --------------------------------------------------------------------------- replay / shrink
def replay_lists(check, lists, want_log=True, want_sample=True):
    streams = Streams.replay(lists)
    VCLOCK.reset()
    out = check.execute(streams, Ctx(want_sample=want_sample, want_log=want_log))
    return out


def minimise(check, viol, max_replays=400):
    key = (viol["clause"], tuple(viol["sig"]))

    def still_fails(cand):
        try:
            out = replay_lists(check, cand, want_log=False, want_sample=False)
        except Exception:
            return None
        for v in out.violations:
            if v.key() == key:
                return out.lists
        return None

    best, ok = shrink(viol["lists"], still_fails, max_replays)
    return best, ok


def write_replay(pid, viol, min_lists, out, verif_seed):
    os.makedirs(os.path.join(VERIF_DIR, "replays"), exist_ok=True)
    name = "%s-%s-%d-%d-%s.json" % (pid, viol["clause"].replace(".", "_"), verif_seed, viol["index"],
                                    "%08x" % (h64(viol["sig"]) & 0xFFFFFFFF))
    path = os.path.join(VERIF_DIR, "replays", name)
    match = [v for v in out.violations if v.key() == (viol["clause"], tuple(viol["sig"]))]
    data = {
        "engine_version": ENGINE_VERSION,
        "repo": repo_rev(),
        "property": pid,
        "clause": viol["clause"],
        "sig": viol["sig"],
        "verif_seed": verif_seed,
        "run_index": viol["index"],
        "original_lists": viol["lists"],
        "lists": min_lists,
        "scenario": out.sample,
        "detail": match[0].detail if match else viol["detail"],
        "event_log": (out.log if isinstance(out.log, str) else repr(out.log))[:200000],
        "digest": digest_of(out),
    }
    with open(path, "w") as fh:
        json.dump(data, fh, indent=1, default=repr)
    return path


def confirm_fresh(path):
    """Replay the minimised file in a fresh interpreter under another hash seed"""
    env = dict(os.environ)
    env["PYTHONHASHSEED"] = "12345" if env.get("PYTHONHASHSEED") != "12345" else "54321"
    proc = subprocess.run(
        [sys.executable, "-B", os.path.join(VERIF_DIR, "run.py"), "replay", path, "--json"],
        capture_output=True, text=True, env=env, timeout=300, cwd=VERIF_DIR,
    )
    info = None
    for line in proc.stdout.splitlines():
        if line.startswith("REPLAY-JSON "):
            info = json.loads(line[len("REPLAY-JSON "):])
    return info


def cmd_replay(path, as_json=False):
    setup_repo_path()
    with open(path) as fh:
        data = json.load(fh)
    pid = data["property"]
    check = load_check(pid)
    if data.get("kind") == "extra":
        r = check.extra_checks(data["verif_seed"], data["tier"])
        v = r.get("violation")
        reproduced = v is not None and v["clause"] == data["clause"]
        if as_json:
            print("REPLAY-JSON " + json.dumps({"reproduced": reproduced, "digest": None}))
        print(json.dumps(r, default=repr)[:2000])
        if reproduced:
            print("VIOLATION property=%s replay=%s" % (pid, path))
            return 1
        print("replay did not reproduce %s" % data["clause"])
        return 0
    gc.disable()
    out = replay_lists(check, data["lists"])
    key = (data["clause"], tuple(data["sig"]))
    reproduced = any(v.key() == key for v in out.violations)
    digest = digest_of(out)
    if as_json:
        print("REPLAY-JSON " + json.dumps({"reproduced": reproduced, "digest": digest,
                                          "violations": [[v.clause, list(v.sig)] for v in out.violations]}))
    else:
        print("scenario:", json.dumps(out.sample, indent=1, default=repr))
        for v in out.violations:
            print("violated %s %s: %s" % (v.clause, list(v.sig), v.detail))
        print("digest %s (recorded %s) exact=%s" % (digest, data.get("digest"), digest == data.get("digest")))
    if reproduced:
        print("VIOLATION property=%s replay=%s" % (pid, path))
        return 1
    print("replay did not reproduce %s %s" % key)
    return 0


# --------------------------------------------------------------------------- main entry
def run_check(pid, tier="quick", runs=None, workers=None, verif_seed=None, write_evidence=True,
              want_digests=False, wall_cap=None, quiet=False):
    t0 = time.time()
    repo = setup_repo_path()
    check = load_check(pid)
    if verif_seed is None:
        verif_seed = int(os.environ.get("VERIF_SEED", "0") or 0)
    budget = runs if runs is not None else check.BUDGET[tier]
    if workers is None:
        workers = int(os.environ.get("VERIF_WORKERS", "0") or 0) or min(16, os.cpu_count() or 1)
    if wall_cap is None:
        wall_cap = float(os.environ.get("VERIF_WALL_CAP", "0") or 0) or (900 if tier == "quick" else 3600)
    known = load_known()
    chunks = [(pid, verif_seed, s, min(s + CHUNK, budget), tier, want_digests)
              for s in range(0, budget, CHUNK)]
    results = {}
    errors = []
    big = {"shapes": set(), "traces": set()}

    def absorb(r):
        # the hash sets are order independent: merge them at once and drop them from the chunk result
        big["shapes"] |= r.pop("shapes")
        big["traces"] |= r.pop("traces")
        r["shapes"] = r["traces"] = ()
    truncated = False
    stop_early = False
    if workers <= 1:
        for c in chunks:
            r = _worker(c)
            absorb(r)
            results[c[2]] = r
            if r["error"]:
                errors.append(r["error"])
                break
            if r["violations"] and not want_digests:
                stop_early = True
                break
            if time.time() - t0 > wall_cap:
                truncated = True
                break
    else:
        ctx = multiprocessing.get_context("fork")
        with ProcessPoolExecutor(max_workers=workers, mp_context=ctx) as pool:
            futs = {pool.submit(_worker, c): c for c in chunks}
            try:
                for fut in as_completed(futs, timeout=wall_cap + 1200):
                    c = futs[fut]
                    if fut.cancelled():
                        continue
                    try:
                        r = fut.result()
                    except BaseException as err:
                        errors.append("chunk %d: %r" % (c[2], err))
                        for f in futs:
                            f.cancel()
                        break
                    absorb(r)
                    results[c[2]] = r
                    if r["error"]:
                        errors.append(r["error"])
                    if (r["violations"] and not want_digests) or r["error"]:
                        stop_early = True
                        for f in futs:
                            f.cancel()
                    elif time.time() - t0 > wall_cap:
                        truncated = True
                        for f in futs:
                            f.cancel()
            except TimeoutError:  # pragma: no cover
                errors.append("wall timeout waiting for workers")
    # ---- merge in index order
    merged = {
        "evaluations": 0, "runs": 0, "shapes": set(), "traces": set(), "faults": Counter(),
        "probes": Counter(), "steps": 0, "sim_time": 0, "violations": [], "known": Counter(),
        "samples": [], "capped": 0, "breaches": 0, "fault_free": 0, "digests": [], "lines": [],
    }
    for start in sorted(results):
        r = results[start]
        for k in ("evaluations", "runs", "steps", "sim_time", "capped", "breaches", "fault_free"):
            merged[k] += r[k]
        merged["faults"].update(r["faults"])
        merged["probes"].update(r["probes"])
        merged["known"].update(r["known"])
        merged["violations"].extend(r["violations"])
        merged["digests"].extend(r["digests"])
        if r.get("lines"):
            merged["lines"] = r["lines"]
        if len(merged["samples"]) < 3:
            merged["samples"].extend(r["samples"][: 3 - len(merged["samples"])])
    merged["shapes"] = big["shapes"]
    merged["traces"] = big["traces"]
    # ---- violations: minimise, write replay, confirm in a fresh interpreter
    exit_code = 0
    lines = []
    reported = []
    seen = set()
    nondeterminism = False
    for viol in sorted(merged["violations"], key=lambda v: v["index"]):
        key = (viol["clause"], tuple(viol["sig"]))
        if key in seen or len(reported) >= 3:
            continue
        seen.add(key)
        gc.disable()
        try:
            min_lists, ok = minimise(check, viol)
            if not ok:
                nondeterminism = True
                lines.append("HARNESS-NONDETERMINISM property=%s run=%d clause=%s did not reproduce in-process"
                             % (pid, viol["index"], viol["clause"]))
                continue
            out = replay_lists(check, min_lists)
        finally:
            gc.enable()
        path = write_replay(pid, viol, min_lists, out, verif_seed)
        info = confirm_fresh(path)
        if not info or not info.get("reproduced"):
            nondeterminism = True
            lines.append("HARNESS-NONDETERMINISM property=%s replay=%s did not reproduce in a fresh interpreter"
                         % (pid, path))
            continue
        exact = info.get("digest") == digest_of(out)
        if not exact:
            lines.append("HARNESS-WARNING replay digest differs in a fresh interpreter: %s" % path)
        detail = [v for v in out.violations if v.key() == key]
        lines.append("violated clause %s %s: %s" % (viol["clause"], viol["sig"],
                                                  detail[0].detail if detail else viol["detail"]))
        lines.append("VIOLATION property=%s replay=%s" % (pid, path))
        reported.append({"clause": viol["clause"], "sig": viol["sig"], "replay": path,
                         "replay_exact": exact, "run_index": viol["index"]})
        exit_code = 1
    # ---- per-invocation extra part of a check (e.g. the C17 tripwire subprocess)
    extra = getattr(check, "extra_checks", None)
    if extra is not None and not want_digests and not errors:
        try:
            r = extra(verif_seed, tier)
        except Exception as err:  # pragma: no cover
            r = {"error": "extra_checks: %r" % (err,)}
        if r.get("error"):
            errors.append(r["error"])
        else:
            merged["evaluations"] += r.get("evaluations", 0)
            merged["probes"].update(r.get("probes", {}))
            merged["extra"] = r.get("info")
            v = r.get("violation")
            if v is not None:
                viol = Violation(v["clause"], v["sig"], v["detail"])
                entry = match_known(known, pid, viol)
                if entry is not None:
                    merged["known"][entry["id"]] += 1
                else:
                    os.makedirs(os.path.join(VERIF_DIR, "replays"), exist_ok=True)
                    path = os.path.join(VERIF_DIR, "replays", "%s-%s-%d-extra.json" % (
                        pid, v["clause"].replace(".", "_"), verif_seed))
                    with open(path, "w") as fh:
                        json.dump({"property": pid, "kind": "extra", "clause": v["clause"], "sig": list(v["sig"]),
                                   "verif_seed": verif_seed, "tier": tier, "detail": v["detail"]}, fh, indent=1)
                    lines.append("violated clause %s %s: %s" % (v["clause"], list(v["sig"]), v["detail"]))
                    lines.append("VIOLATION property=%s replay=%s" % (pid, path))
                    reported.append({"clause": v["clause"], "sig": list(v["sig"]), "replay": path})
                    exit_code = 1
    for kid, count in sorted(merged["known"].items()):
        entry = [e for e in known if e.get("id") == kid][0]
        lines.append("KNOWN-FINDING: property=%s %s (%d runs; %s)" % (pid, entry.get("what", kid), count, kid))
    if errors:
        lines.append("HARNESS-ERROR property=%s %s" % (pid, errors[0][-3000:]))
    if (errors or nondeterminism) and exit_code == 0:
        exit_code = 2
    if merged["evaluations"] and merged["capped"] == merged["evaluations"]:
        lines.append("HARNESS-ERROR property=%s every run hit the step cap" % pid)
        exit_code = exit_code or 2
    wall = time.time() - t0
    # ---- evidence
    zero_probes = [p for p in getattr(check, "PROBES", ()) if not merged["probes"].get(p)]
    if write_evidence:
        coverage = {
            "evaluations": merged["evaluations"],
            "distinct_nontrivial": len(merged["shapes"]),
            "rule": check.RULE,
            "samples": merged["samples"] or ["(no sample recorded)"],
            "exhaustive": False,
            "runs": merged["runs"],
            "runs_per_hour": int(merged["evaluations"] / wall * 3600) if wall > 0 else 0,
            "seeds": {"VERIF_SEED": verif_seed, "first_run_index": 0, "last_run_index": budget - 1,
                      "derivation": "sha256(VERIF_SEED/property/index/stream)"},
            "steps": merged["steps"],
            "sim_time_us_total": merged["sim_time"],
            "fault_counts_fired": dict(merged["faults"]),
            "fault_free_runs": merged["fault_free"],
            "schedule_digests_distinct": len(merged["traces"]),
            "probes": {p: merged["probes"].get(p, 0) for p in
                       sorted(set(getattr(check, "PROBES", ())) | set(merged["probes"]))},
            "probes_at_zero": zero_probes,
            "components": check.COMPONENTS,
            "known_findings_fired": dict(merged["known"]),
            "violations_reported": reported,
            "c17_breaches_seen": merged["breaches"],
            "runs_capped": merged["capped"],
            "truncated": truncated or stop_early,
            "workers": workers,
            "repo": repo_rev(),
            "repo_dir": repo,
            "harness_errors": [e[-500:] for e in errors],
            "extra_part": merged.get("extra"),
            "library_reach_first_chunk": anchor_file_coverage(pid, merged["lines"]),
        }
        evidence = {
            "property_id": pid,
            "tier": tier,
            "seed": verif_seed,
            "level": check.LEVEL,
            "coverage": coverage,
            "assumptions": list(check.ASSUMPTIONS),
            "wall_s": round(wall, 3),
            "violations": len(reported),
        }
        os.makedirs(os.path.join(VERIF_DIR, "evidence"), exist_ok=True)
        path = os.path.join(VERIF_DIR, "evidence", "%s.json" % pid)
        tmp = path + ".tmp"
        with open(tmp, "w") as fh:
            json.dump(evidence, fh, indent=1, default=repr, sort_keys=True)
        os.replace(tmp, path)
    if not quiet:
        for line in lines:
            print(line)
        for p in zero_probes:
            print("warning: probe %s never hit" % p)
        print("%s %s: %d runs, %d evaluations, %d distinct non-trivial, %d schedules, %.1fs, %d/h, exit %d%s"
              % (pid, tier, merged["runs"], merged["evaluations"], len(merged["shapes"]),
                 len(merged["traces"]), wall, int(merged["evaluations"] / wall * 3600) if wall else 0,
                 exit_code, " (truncated)" if truncated else ""))
    return exit_code, merged, lines
