"""
Sensitivity self-test (DESIGN.md section 7): the seeded breaking changes under /verif/seeded/<id>/.

For every seeded change: copy /repo's working tree to a scratch directory outside /repo and /verif,
apply patch.diff, run the repository's own test-suite (must still pass - otherwise the change is not in
scope), run the demonstration (must fail with the change, pass on the unchanged tree), run the quick
check of the property it breaks (and optionally other checks) with VERIF_REPO=<scratch>, record whether
a VIOLATION was reported and after how many runs, then delete the scratch directory.

  run.py selftest seeded [<id> ...] [--checks C01,C05] [--keep]
"""

import glob
import json
import os
import re
import shutil
import subprocess
import sys
import tempfile
import time

from .runner import VERIF_DIR

PY = sys.executable


def sh(cmd, cwd, env=None, timeout=1800):
    e = dict(os.environ)
    e.pop("VERIF_REPO", None)
    if env:
        e.update(env)
    p = subprocess.run(cmd, cwd=cwd, env=e, capture_output=True, text=True, timeout=timeout)
    return p.returncode, p.stdout + p.stderr


def make_scratch(patch):
    scratch = tempfile.mkdtemp(prefix="aslmut-")
    subprocess.run(["rsync", "-a", "--exclude", ".git", "--exclude", "__pycache__", "/repo/", scratch + "/"], check=True)
    if patch is not None:
        code, out = sh(["git", "apply", "--whitespace=nowarn", patch], scratch)
        if code != 0:
            shutil.rmtree(scratch, ignore_errors=True)
            raise RuntimeError("patch does not apply: %s" % out)
    return scratch


def run_one(sdir, checks=None, verbose=True):
    meta = json.load(open(os.path.join(sdir, "meta.json")))
    sid = meta["id"]
    patch = os.path.join(sdir, meta.get("patch", "patch.diff"))
    demo = os.path.join(sdir, meta.get("demo", "demo.py"))
    res = {"id": sid, "property": meta["property"], "needs": meta.get("needs"), "tests": None, "demo_with": None,
           "demo_without": None, "checks": {}}
    scratch = make_scratch(patch)
    try:
        code, out = sh([PY, "-m", "pytest", "-q", "-p", "no:cacheprovider", "-x"], scratch)
        m = re.search(r"(\d+) passed", out)
        res["tests"] = {"exit": code, "passed": int(m.group(1)) if m else 0}
        # demos expect to live in <tree>/OUT/ (they put their grand-parent directory on sys.path)
        os.makedirs(os.path.join(scratch, "OUT"), exist_ok=True)
        helpers = [f for f in glob.glob(os.path.join(sdir, "*.py")) if os.path.basename(f) != os.path.basename(demo)]
        for f in helpers:  # shared helper modules some demos import
            shutil.copy(f, os.path.join(scratch, "OUT", os.path.basename(f)))
        shutil.copy(demo, os.path.join(scratch, "OUT", "demo.py"))
        code, out = sh([PY, "OUT/demo.py"], scratch, {"PYTHONPATH": scratch})
        res["demo_with"] = code
        clean = make_scratch(None)
        try:
            os.makedirs(os.path.join(clean, "OUT"), exist_ok=True)
            for f in helpers:
                shutil.copy(f, os.path.join(clean, "OUT", os.path.basename(f)))
            shutil.copy(demo, os.path.join(clean, "OUT", "demo.py"))
            code2, out2 = sh([PY, "OUT/demo.py"], clean, {"PYTHONPATH": clean})
        finally:
            shutil.rmtree(clean, ignore_errors=True)
        res["demo_without"] = code2
        for pid in (checks or meta.get("checks") or [meta["property"]]):
            t0 = time.time()
            code, out = sh([PY, os.path.join(VERIF_DIR, "run.py"), "check", pid, "--tier", "quick", "--no-evidence"],
                           VERIF_DIR, {"VERIF_REPO": scratch}, timeout=3000)
            viol = [l for l in out.splitlines() if l.startswith("VIOLATION")]
            clauses = [l for l in out.splitlines() if l.startswith("violated clause")]
            first = None
            for l in viol:
                m = re.search(r"-(\d+)-(\d+)-[0-9a-f]{8}\.json", l)
                if m:
                    idx = int(m.group(2))
                    first = idx if first is None else min(first, idx)
            res["checks"][pid] = {"exit": code, "violation": bool(viol), "first_run_index": first,
                                  "clauses": sorted({c.split(":")[0].replace("violated clause ", "") for c in clauses}),
                                  "wall_s": round(time.time() - t0, 1)}
            if code not in (0, 1):
                res["checks"][pid]["tail"] = out[-800:]
    finally:
        shutil.rmtree(scratch, ignore_errors=True)
    if verbose:
        print(json.dumps(res))
    return res


def run_cross(sdir, scale=10):
    """All 20 quick checks at 1/scale of their budget against one seeded change: {property: violation?}"""
    import importlib

    meta = json.load(open(os.path.join(sdir, "meta.json")))
    patch = os.path.join(sdir, meta.get("patch", "patch.diff"))
    scratch = make_scratch(patch)
    out = {}
    try:
        for i in range(1, 21):
            pid = "C%02d" % i
            mod = importlib.import_module("aslsim.checks." + pid.lower())
            runs = max(200, mod.BUDGET["quick"] // scale)
            code, text = sh([PY, os.path.join(VERIF_DIR, "run.py"), "check", pid, "--runs", str(runs), "--no-evidence"],
                            VERIF_DIR, {"VERIF_REPO": scratch}, timeout=3000)
            out[pid] = any(l.startswith("VIOLATION") for l in text.splitlines())
    finally:
        shutil.rmtree(scratch, ignore_errors=True)
    return meta["id"], out


def main(rest):
    checks = None
    ids = []
    for r in rest:
        if r.startswith("--checks"):
            checks = r.split("=", 1)[1].split(",")
        elif not r.startswith("--"):
            ids.append(r)
    if "--cross" in rest:
        path = os.path.join(VERIF_DIR, "seeded", "CROSS.json")
        cross = json.load(open(path)) if os.path.exists(path) else {}
        for mpath in sorted(glob.glob(os.path.join(VERIF_DIR, "seeded", "*", "meta.json"))):
            sid = os.path.basename(os.path.dirname(mpath))
            if (ids and sid not in ids) or (not ids and sid in cross):
                continue
            sid, row = run_cross(os.path.dirname(mpath))
            cross[sid] = row
            print("cross %-45s caught by: %s" % (sid, " ".join(p for p, v in sorted(row.items()) if v)))
            with open(path, "w") as fh:
                json.dump(cross, fh, indent=1, sort_keys=True)
        return 0
    dirs = sorted(glob.glob(os.path.join(VERIF_DIR, "seeded", "*", "meta.json")))
    results = []
    bad = 0
    for mpath in dirs:
        sdir = os.path.dirname(mpath)
        sid = os.path.basename(sdir)
        if ids and sid not in ids:
            continue
        res = run_one(sdir, checks)
        results.append(res)
        own = res["checks"].get(res["property"])
        ok = (res["tests"]["exit"] == 0 and res["demo_with"] != 0 and res["demo_without"] == 0
              and own is not None and own["violation"])
        if not ok:
            bad += 1
        print("seeded %-28s property=%s tests=%s demo(with/without)=%s/%s detected=%s first_run=%s -> %s" % (
            sid, res["property"], "pass" if res["tests"]["exit"] == 0 else "FAIL", res["demo_with"], res["demo_without"],
            own["violation"] if own else None, own["first_run_index"] if own else None, "ok" if ok else "MISSED/INVALID"))
    rpath = os.path.join(VERIF_DIR, "seeded", "RESULTS.json")
    if not ids and checks is None:
        with open(rpath, "w") as fh:
            json.dump({"results": results}, fh, indent=1)
    elif ids and checks is None and "--merge" in rest and os.path.exists(rpath):
        # re-run of some changes: their rows replace the recorded ones (rows of changes that no longer exist are dropped)
        old = {r["id"]: r for r in json.load(open(rpath))["results"]}
        for r in results:
            old[r["id"]] = r
        present = {os.path.basename(os.path.dirname(m)) for m in dirs}
        with open(rpath, "w") as fh:
            json.dump({"results": [old[k] for k in sorted(old) if k in present]}, fh, indent=1)
    return 1 if bad else 0


def main_benign(rest):
    """
    run.py selftest benign [<id> ...] [--scale=N]
    Behaviour-preserving refactorings under /verif/benign/<id>/patch.diff: every check must stay silent.
    """
    import importlib

    scale = 3
    ids = []
    only = None
    for r in rest:
        if r.startswith("--scale="):
            scale = int(r.split("=", 1)[1])
        elif r.startswith("--checks="):
            only = r.split("=", 1)[1].split(",")  # re-run these checks only, keep the recorded rows of the others
        elif not r.startswith("--"):
            ids.append(r)
    results = {}
    path = os.path.join(VERIF_DIR, "benign", "RESULTS.json")
    if os.path.exists(path) and (ids or only):
        results = json.load(open(path))
    alarms = 0
    for ppath in sorted(glob.glob(os.path.join(VERIF_DIR, "benign", "*", "patch.diff"))):
        bid = os.path.basename(os.path.dirname(ppath))
        if ids and bid not in ids:
            continue
        scratch = make_scratch(ppath)
        row = {"tests": None, "alarms": {}}
        if only and bid in results:
            row = results[bid]
            for pid in only:
                row["alarms"].pop(pid, None)
        try:
            if not (only and bid in results):
                code, out = sh([PY, "-m", "pytest", "-q", "-p", "no:cacheprovider", "-x"], scratch)
                row["tests"] = code
            for i in range(1, 21):
                pid = "C%02d" % i
                if only and pid not in only:
                    continue
                mod = importlib.import_module("aslsim.checks." + pid.lower())
                runs = max(300, mod.BUDGET["quick"] // scale)
                code, text = sh([PY, os.path.join(VERIF_DIR, "run.py"), "check", pid, "--runs", str(runs), "--no-evidence"],
                                VERIF_DIR, {"VERIF_REPO": scratch}, timeout=3000)
                if code != 0:
                    row["alarms"][pid] = [l for l in text.splitlines() if l.startswith(("violated clause", "VIOLATION", "HARNESS"))][:4]
        finally:
            shutil.rmtree(scratch, ignore_errors=True)
        results[bid] = row
        alarms += len(row["alarms"])
        print("benign %-40s tests=%s alarms=%s" % (bid, "pass" if row["tests"] == 0 else "FAIL", sorted(row["alarms"]) or "none"))
        for pid, lines in row["alarms"].items():
            for l in lines[:2]:
                print("    %s %s" % (pid, l[:400]))
        with open(path, "w") as fh:
            json.dump(results, fh, indent=1, sort_keys=True)
    return 1 if alarms else 0
