"""
Self-tests of the machinery (DESIGN.md section 7).

determinism: every check, N run indices: digest(event log, choice lists, verdicts) must be equal
  (a) twice in one process, (b) in a fresh interpreter under another PYTHONHASHSEED,
  (c) at another worker count.
"""

import glob
import json
import os
import subprocess
import sys

from .runner import VERIF_DIR, run_check


def present_checks():
    out = []
    for path in sorted(glob.glob(os.path.join(VERIF_DIR, "aslsim", "checks", "c[0-9][0-9].py"))):
        out.append(os.path.basename(path)[:-3].upper())
    return out


def digests(pid, n, workers, seed=0):
    code, merged, lines = run_check(pid, runs=n, workers=workers, verif_seed=seed, write_evidence=False,
                                   want_digests=True, quiet=True)
    return code, sorted(merged["digests"]), lines


def cmd_digests(rest):
    pid, n, workers, seed = rest[0], int(rest[1]), int(rest[2]), int(rest[3])
    code, ds, lines = digests(pid, n, workers, seed)
    print("DIGESTS " + json.dumps({"code": code, "digests": ds}))
    return 0


def cmd_determinism(rest):
    quick = "--quick" in rest
    pids = [r.upper() for r in rest if not r.startswith("--")] or present_checks()
    n = 300 if quick else 2500
    bad = 0
    for pid in pids:
        seed = 7
        c1, d1, l1 = digests(pid, n, 1, seed)
        # perturb the heap between the two passes: anything ordered by object address would now differ
        junk = [[object() for _ in range(37)] for _ in range(20011)]
        c2, d2, _ = digests(pid, n, 1, seed)
        del junk
        env = dict(os.environ)
        env["PYTHONHASHSEED"] = "4242"
        proc = subprocess.run([sys.executable, "-B", os.path.join(VERIF_DIR, "run.py"), "selftest", "digests",
                               pid, str(n), "4" if quick else "16", str(seed)],
                              capture_output=True, text=True, env=env, cwd=VERIF_DIR, timeout=3000)
        d3 = None
        for line in proc.stdout.splitlines():
            if line.startswith("DIGESTS "):
                d3 = [tuple(x) for x in json.loads(line[8:])["digests"]]
        same12 = d1 == d2
        same13 = d3 is not None and [tuple(x) for x in d1] == d3
        status = "ok" if (same12 and same13 and d1) else "MISMATCH"
        if status != "ok":
            bad += 1
            if d3 is None:
                print(proc.stdout[-2000:], proc.stderr[-2000:])
            else:
                diff = [a[0] for a, b in zip(d1, d3) if tuple(a) != tuple(b)][:5]
                diff2 = [a[0] for a, b in zip(d1, d2) if a != b][:5]
                print("  differing run indices: fresh=%s same-process=%s" % (diff, diff2))
        print("determinism %s: %d digests, twice-in-process=%s fresh-interpreter+other-hashseed+other-worker-count=%s -> %s"
              % (pid, len(d1), same12, same13, status))
    return 1 if bad else 0


def main(what, rest):
    if what == "digests":
        return cmd_digests(rest)
    if what == "determinism":
        return cmd_determinism(rest)
    if what == "seeded":
        from . import seeded

        return seeded.main(rest)
    if what == "benign":
        from . import seeded

        return seeded.main_benign(rest)
    print("unknown selftest", what)
    return 2
