"""
Driving one operation spec in the async world (inside the simulator) and in the reference
world (real stdlib, synchronous), and comparing the two event logs (DESIGN.md section 5).
"""

from .actors import (
    World, ident, make_async_source, make_ref_source, make_async_fn, make_ref_fn,
)
from .loop import Cancel
from .tools import TOOLS, AGGS, lib


MAX_YIELDS = 3000


class Run:
    """What one execution of a spec produced"""

    __slots__ = ("world", "log", "yields", "end", "exc", "it", "srcs", "fns", "value",
                 "has_value", "n_steps_done", "closed", "close_exc", "S", "cancelled")

    def __init__(self, world):
        self.world = world
        self.log = world.log
        self.yields = []
        self.end = None  # 'stop' | 'exc' | 'partial' | 'value'
        self.exc = None
        self.it = None
        self.srcs = []
        self.fns = []
        self.value = None
        self.has_value = False
        self.n_steps_done = 0
        self.closed = False
        self.close_exc = None
        self.S = None
        self.cancelled = None


def _build_sources(spec, world, make):
    plans = list(spec.srcs)
    outer = None
    if spec.tool == "chain" and spec.p.get("form") == 2:
        outer = plans.pop()
    srcs = [make(world, p) for p in plans]
    alias = spec.p.get("alias")
    if alias:
        # the very same iterator object in two argument positions
        srcs[alias[1]] = srcs[alias[0]]
    if outer is not None:
        # the lazy outer iterable of chain.from_iterable delivers the member objects of this world
        from .actors import SrcPlan
        plan = SrcPlan(outer.name, [s.obj for s in srcs], outer.flavour, outer.suspend,
                       outer.aclose_suspends, aclose_mode=outer.aclose_mode, falsy=outer.falsy)
        srcs.append(make(world, plan))
    return srcs


def build_async(spec, world):
    srcs = _build_sources(spec, world, make_async_source)
    fns = [make_async_fn(world, p) if p is not None else None for p in spec.fns]
    return srcs, fns


def build_ref(spec, world, containers=False):
    srcs = _build_sources(spec, world, lambda w, p: make_ref_source(w, p, containers))
    fns = [make_ref_fn(world, p) if p is not None else None for p in spec.fns]
    return srcs, fns


def _objs(parties):
    return [p.obj if p is not None else None for p in parties]


# --------------------------------------------------------------------------- iterator tools
async def drive_tool(spec, run, steps=None, close=False, keep_items=True):
    """Consumer task: advance the async tool ``steps`` times (None: to the end)"""
    world = run.world
    log = run.log
    tool = TOOLS[spec.tool]
    run.srcs, run.fns = build_async(spec, world)
    S, F = _objs(run.srcs), _objs(run.fns)
    run.S = S
    try:
        it = tool.a(lib(), spec, S, F)
    except Cancel:
        raise
    except BaseException as err:
        log.append(("end", "exc", type(err).__name__))
        run.end, run.exc = "exc", err
        return run
    del S, F
    run.it = it
    n = 0
    anext = it.__anext__
    try:
        while steps is None or n < steps:
            try:
                item = await anext()
            except StopAsyncIteration:
                log.append(("end", "stop"))
                run.end = "stop"
                # the end is final: a consumer that asks again is told the same, however often
                for _ in range(spec.p.get("again", 0)):
                    try:
                        item = await anext()
                    except StopAsyncIteration:
                        log.append(("end", "stop"))
                    except Cancel as err:
                        run.cancelled = err
                        run.end = "cancel"
                        raise
                    except BaseException as err:
                        log.append(("end", "exc", type(err).__name__))
                        break
                    else:
                        log.append(("yield", ident(item)))
                        del item
                break
            except Cancel as err:
                run.cancelled = err
                run.end = "cancel"
                raise
            except BaseException as err:
                log.append(("end", "exc", type(err).__name__))
                run.end, run.exc = "exc", err
                break
            n += 1
            run.n_steps_done = n
            log.append(("yield", ident(item)))
            if keep_items:
                run.yields.append(item)
            del item
            if n >= MAX_YIELDS:
                # finite inputs, yet the tool does not end: stop driving it (the logs will differ from the stdlib's)
                log.append(("end", "runaway"))
                run.end = "runaway"
                break
        else:
            run.end = "partial"
    finally:
        if close and run.end != "cancel":
            log.append(("close",))
            try:
                await it.aclose()
            except BaseException as err:  # noqa
                run.close_exc = err
            run.closed = True
        if run.end != "cancel":
            _read_on(run)
    return run


def _read_on(run):
    """
    The owner of a regular generator that was handed to the tool reads on from it once the tool is done with
    (stopped, closed or failed): it gets the next item - the generator is the owner's, not the tool's to close.
    """
    seen = set()
    if getattr(run.world, "fault_fired", False):
        return  # (after a prepared failure nobody is to touch the parties again: that is C06's own clause)
    for src in run.srcs:
        if getattr(src.plan, "as_gen", False) and id(src.obj) not in seen:
            seen.add(id(src.obj))
            try:
                item = next(src.obj)
            except StopIteration:
                run.log.append(("rest", src.name, "stop"))
            except BaseException as err:
                if isinstance(err, Cancel):
                    raise
                run.log.append(("rest", src.name, "raised", type(err).__name__))
            else:
                run.log.append(("rest", src.name, ident(item)))


def ref_tool(spec, steps=None, fault=None, fault2=None):
    """The real stdlib function over the sync twins, driven the same number of steps"""
    world = World()
    world.fault2 = fault2
    if fault is not None:
        world.set_fault(*fault)
    run = Run(world)
    log = run.log
    tool = TOOLS[spec.tool]
    run.srcs, run.fns = build_ref(spec, world)
    S, F = _objs(run.srcs), _objs(run.fns)
    deferred = None
    try:
        it = iter(tool.r(spec, S, F))
    except BaseException as err:
        # the stdlib validates at construction, async generators at the first step
        deferred = err
        it = None
    n = 0
    while steps is None or n < steps:
        if deferred is not None:
            log.append(("end", "exc", type(deferred).__name__))
            run.end, run.exc = "exc", deferred
            break
        try:
            item = next(it)
        except StopIteration:
            log.append(("end", "stop"))
            run.end = "stop"
            for _ in range(spec.p.get("again", 0)):
                try:
                    item = next(it)
                except StopIteration:
                    log.append(("end", "stop"))
                except BaseException as err:
                    log.append(("end", "exc", type(err).__name__))
                    break
                else:
                    log.append(("yield", ident(item)))
            break
        except BaseException as err:
            log.append(("end", "exc", type(err).__name__))
            run.end, run.exc = "exc", err
            break
        n += 1
        log.append(("yield", ident(item)))
        run.yields.append(item)
    else:
        run.end = "partial"
    run.n_steps_done = n
    _read_on(run)
    return run


# --------------------------------------------------------------------------- aggregations
async def drive_agg(spec, run):
    world = run.world
    log = run.log
    agg = AGGS[spec.tool]
    run.srcs, run.fns = build_async(spec, world)
    S, F = _objs(run.srcs), _objs(run.fns)
    run.S = S
    try:
        awaitable = agg.a(lib(), spec, S, F)
        run.it = awaitable
        del S, F
        value = await awaitable
    except Cancel as err:
        run.cancelled = err
        run.end = "cancel"
        raise
    except BaseException as err:
        log.append(("end", "exc", type(err).__name__))
        run.end, run.exc = "exc", err
        return run
    log.append(("end", "value", ident(value)))
    run.end, run.value, run.has_value = "value", value, True
    return run


def ref_agg(spec, fault=None, fault2=None):
    world = World()
    world.fault2 = fault2
    if fault is not None:
        world.set_fault(*fault)
    run = Run(world)
    log = run.log
    agg = AGGS[spec.tool]
    # containers are passed as containers: list.sort / sum fast paths are stdlib behaviour too
    run.srcs, run.fns = build_ref(spec, world, containers=False)
    S, F = _objs(run.srcs), _objs(run.fns)
    run.S = S
    try:
        value = agg.r(spec, S, F)
    except BaseException as err:
        log.append(("end", "exc", type(err).__name__))
        run.end, run.exc = "exc", err
        return run
    log.append(("end", "value", ident(value)))
    run.end, run.value, run.has_value = "value", value, True
    return run


# --------------------------------------------------------------------------- log normalisation
_DROP = frozenset(("aclose", "fin", "close", "lock_acq", "lock_rel", "pull_after_close"))


def normalise(log):
    """
    Rules 1 and 2 of DESIGN.md section 5: lifecycle events have no stdlib counterpart; a pull of
    a source that already reported its end consumes nothing.
    """
    out = []
    ended = set()
    skip_eos = False
    for ev in log:
        kind = ev[0]
        if kind in _DROP:
            continue
        if kind == "pull":
            if ev[1] in ended:
                continue
            out.append(("pull", ev[1]))
            continue
        if kind == "eos":
            if ev[1] in ended:
                continue
            ended.add(ev[1])
        out.append(ev)
    return out


def project_values(log):
    """Only what the consumer sees: yielded items and the ending"""
    return [ev for ev in log if ev[0] == "yield" or ev[0] == "end"]


def first_diff(a, b):
    n = min(len(a), len(b))
    for i in range(n):
        if a[i] != b[i]:
            return i
    if len(a) != len(b):
        return n
    return None
