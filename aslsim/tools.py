"""
Table of the library operations driven by the workloads: for each iterator tool and
aggregation a parameter generator, the asyncstdlib constructor and the *real* stdlib twin.
"""

import builtins
import functools
import heapq
import itertools

from .loop import Cancel
from .actors import (
    Item, Unorderable, Ambiguous, AwaitableItem, PairIterable, SrcPlan, FnPlan, ALL_FLAVOURS, FN_FLAVOURS, LOGGING_FLAVOURS,
    ASYNC_FLAVOURS, CONTAINER_FLAVOURS, SYNC_FLAVOURS, _behave, keyof,
)

_lib = None


def lib():
    """asyncstdlib, imported late so the runner can point sys.path at the tree under test"""
    global _lib
    if _lib is None:
        from .vclock import install

        install()  # the clock seam goes in before the library can bind any clock function
        import asyncstdlib

        _lib = asyncstdlib
    return _lib


ABSENT = object()


# --------------------------------------------------------------------------- configuration
class Cfg:
    """Swarm configuration of one run (drawn first from the scenario stream)"""

    __slots__ = ("src_flavours", "fn_flavours", "max_susp", "max_len", "keyspace",
                 "aclose_susp", "logging_only", "async_only", "odd_items", "odd_sources", "huge")

    def __init__(self):
        self.src_flavours = ALL_FLAVOURS
        self.fn_flavours = FN_FLAVOURS
        self.max_susp = 2
        self.max_len = 5
        self.keyspace = 3
        self.aclose_susp = False
        self.logging_only = False
        self.async_only = False
        self.odd_items = False
        self.huge = False  # inputs and numeric parameters beyond 256 (where small-int identity stops working)
        self.odd_sources = True  # aclose returning a value / a non-coroutine awaitable, one iterator passed twice

    def describe(self):
        return {k: getattr(self, k) for k in self.__slots__}


def draw_cfg(ch, logging_only=False, async_only=False, all_suspend=False, odd_items=True, huge=False):
    cfg = Cfg()
    cfg.odd_items = odd_items
    palette = ch.draw(4)
    if async_only:
        cfg.src_flavours = ASYNC_FLAVOURS if not palette else (ASYNC_FLAVOURS[palette - 1],)
        cfg.async_only = True
    elif logging_only:
        cfg.src_flavours = LOGGING_FLAVOURS
        cfg.logging_only = True
        if palette == 1:
            cfg.src_flavours = ("sync_iter", "getitem", "seq_abc", "set_abc")
        elif palette == 2:
            cfg.src_flavours = ASYNC_FLAVOURS
    else:
        if palette == 1:
            cfg.src_flavours = SYNC_FLAVOURS
        elif palette == 2:
            cfg.src_flavours = ASYNC_FLAVOURS
        elif palette == 3:
            cfg.src_flavours = ("list", "agen")
    fpal = ch.draw(4)
    if fpal == 1:
        cfg.fn_flavours = ("def",)
    elif fpal == 2:
        cfg.fn_flavours = FN_FLAVOURS[1:]
    cfg.max_susp = 1 + ch.draw(3) if all_suspend else ch.draw(4)
    cfg.max_len = (3, 5, 7, 2)[ch.draw(4)]
    cfg.keyspace = (3, 2, 5, 1)[ch.draw(4)]
    if ch.chance(1, 16):
        # long inputs once in a while: whatever only starts to matter beyond a size threshold
        cfg.max_len = (24, 40, 70)[ch.draw(3)]
    if huge and ch.chance(1, 40):
        # once in a while everything is big: more than 256 items, numeric parameters beyond 256
        cfg.max_len = 330
        cfg.huge = True
    cfg.aclose_susp = ch.chance(1, 4)
    return cfg


class Gen:
    """Draws items / source plans / callable plans for one scenario"""

    def __init__(self, ch, cfg, prefix=""):
        self.ch = ch
        self.cfg = cfg
        self.uid = 0
        self.nsrc = 0
        self.nfn = 0
        self.prefix = prefix
        self.all_suspend = False
        # all class-based sources of this scenario compare equal to each other (distinct objects all the same)
        self.equal_sources = bool(cfg.odd_sources) and ch.chance(1, 8)

    def item(self, key=None, truth=True):
        self.uid += 1
        if key is None:
            key = self.ch.draw(self.cfg.keyspace)
        return Item(key, self.uid if not self.prefix else (self.prefix, self.uid), truth)

    def optional(self):
        """An optional argument: absent, an item, or an explicit ``None`` (a value like any other where the stdlib says so)"""
        r = self.ch.draw(8)
        if r < 4:
            return ABSENT
        return None if r == 4 else self.item()

    def big(self, hi):
        """A number below ``hi``; in huge mode mostly close to ``hi``"""
        if self.cfg.huge and hi > 60 and self.ch.chance(2, 3):
            return hi - 1 - self.ch.draw(60)
        return self.ch.draw(hi)

    def items(self, n=None, falsy=False):
        if n is None:
            n = self.ch.draw(self.cfg.max_len + 1)
            if self.cfg.huge:
                n = 258 + n % 72
        out = []
        # occasionally the very same object occurs several times in a row (a stream repeating its last reading)
        repeat = self.cfg.odd_items and n >= 2 and self.ch.chance(1, 12)
        for _ in range(n):
            if repeat and out and self.ch.chance(1, 3):
                out.append(out[-1])
                continue
            truth = True
            if falsy:
                truth = not self.ch.chance(1, 3)
            out.append(self.item(truth=truth))
        return out

    def sprinkle(self, items):
        """Occasionally put ``None`` among the items: the one value tools like to use as their own marker"""
        if items and self.cfg.odd_items and self.ch.chance(1, 6):
            # ... or an item that is itself awaitable (a future passed along as data): nobody is to await it
            odd = self.ch.chance(1, 3)
            for _ in range(self.ch.between(1, 2)):
                pos = self.ch.draw(len(items))
                self.uid += 1
                items[pos] = AwaitableItem(self.uid if not self.prefix else (self.prefix, self.uid)) if odd else None
        return items

    def alias(self, srcs):
        """Occasionally the very same iterator object is passed in two positions (the grouper idiom)"""
        if len(srcs) >= 2 and self.cfg.odd_sources and self.ch.chance(1, 8):
            j = self.ch.between(1, len(srcs) - 1)
            i = self.ch.draw(j)
            if srcs[i].flavour in CONTAINER_FLAVOURS:
                # a container passed twice is iterated twice independently; the idiom needs a one-shot iterator
                srcs[i].flavour = "sync_iter"
            return (i, j)
        return None

    def suspend_plan(self, n):
        ms = self.cfg.max_susp
        if self.all_suspend:
            return [1 + self.ch.draw(max(ms, 1)) for _ in range(max(n, 1))]
        if not ms:
            return ()
        return [self.ch.draw(ms + 1) for _ in range(n)]

    def src(self, items, flavours=None):
        fls = flavours or self.cfg.src_flavours
        fl = fls[self.ch.draw(len(fls))]
        name = "%ss%d" % (self.prefix, self.nsrc)
        self.nsrc += 1
        susp = ()
        if fl in ASYNC_FLAVOURS:
            susp = self.suspend_plan(min(len(items) + 1, 4))
        ac = 0
        if self.cfg.aclose_susp and fl in ASYNC_FLAVOURS:
            ac = self.ch.draw(3)
        mode = 0
        if self.cfg.odd_sources and fl in ("aiter_cls", "aiter_full", "aiterable"):
            mode = self.ch.weighted([6, 1, 1])
        falsy = False
        if self.cfg.odd_sources and fl not in CONTAINER_FLAVOURS and fl != "agen":
            falsy = self.ch.chance(1, 8)
        resilient = (1 + self.ch.draw(2)) if (fl == "agen" and self.cfg.odd_sources and self.ch.chance(1, 5)) else False
        slow = None
        if self.cfg.odd_sources and fl not in ("list", "tuple") and self.ch.chance(1, 8):
            # a slow producer: virtual seconds pass inside some of its pulls
            slow = tuple((0.0, 0.05, 0.3, 2.0)[self.ch.draw(4)] for _ in range(3))
        equal = self.equal_sources and fl in ("aiter_cls", "aiter_full", "aiter_noclose")
        plan = SrcPlan(name, items, fl, susp, ac, aclose_mode=mode, falsy=falsy, resilient=resilient, equal=equal, slow=slow,
                       dual=fl == "aiter_cls" and bool(self.cfg.odd_sources) and self.ch.chance(1, 8),
                       lazy_open=fl in ("aiter_cls", "aiter_full") and bool(self.cfg.odd_sources) and self.ch.chance(1, 8),
                       hand_next=fl == "aiter_cls" and bool(self.cfg.odd_sources) and self.ch.chance(1, 8))
        if fl == "sync_iter" and self.cfg.odd_sources and not falsy and self.ch.chance(1, 3):
            # a regular generator object: the tools read it, its owner goes on reading it afterwards - it is not theirs to close
            plan.as_gen = True
        return plan

    def fn(self, kind, param=0):
        fls = self.cfg.fn_flavours
        fl = fls[self.ch.draw(len(fls))]
        if fl == "cls_async_call" and kind != "combine":
            fl = "obj_coro"  # a class as the callable only where its instances are plain results (map, starmap, ...)
        name = "%sf%d" % (self.prefix, self.nfn)
        self.nfn += 1
        susp = ()
        if fl not in ("def", "cls_async_call", "def_wraps_async"):
            susp = self.suspend_plan(3)
        return FnPlan(name, kind, param, fl, susp)

    def combiner(self):
        """n-ary function for map/starmap/accumulate/reduce; rarely a plain def that hands out awaitables as values"""
        if self.cfg.odd_items and self.ch.chance(1, 12):
            plan = self.fn("combine_data")
            plan.flavour = "def"
            plan.suspend = ()
            return plan
        return self.fn("combine")

    def pred(self):
        k = self.ch.draw(3)
        if k == 0:
            return self.fn("lt", self.ch.draw(self.cfg.keyspace + 1))
        if k == 1:
            return self.fn("mod", self.ch.draw(2))
        return self.fn("truth")

    def keyfn(self, allow_none=True, unorderable=False, single_pass=False):
        if unorderable and self.cfg.odd_items and self.ch.chance(1, 10):
            if not single_pass:
                # (what sorting makes of keys without a consistent order depends on the sorting algorithm: only keys that
                # make the comparison *fail* are used there)
                return self.fn(("divnone", "ident")[self.ch.draw(2)], self.ch.draw(2))
            # keys the stdlib cannot order among each other: one shared None for some items, a number for the others
            # ... or NaN for some of them (neither smaller nor greater than anything); or the items themselves, which
            # know ``<`` and ``==`` only
            return self.fn(("divnone", "nankey", "ident")[self.ch.draw(3)], self.ch.draw(2))
        k = self.ch.draw(5 if allow_none else 4)
        if allow_none:
            if k == 0:
                return None
            k -= 1
        if self.ch.chance(1, 6):
            return self.fn("uidkey", 0)
        if self.ch.chance(1, 8):
            return self.fn("mixnum", self.ch.draw(4))
        return self.fn(("keyval", "div", "neg", "const")[k], self.ch.draw(2))


class Spec:
    """A drawn scenario for one operation: pure data, instantiated once per world"""

    __slots__ = ("tool", "srcs", "fns", "p", "steps", "shape", "_items_before", "_faults")

    def __init__(self, tool, srcs, fns, p):
        self.tool = tool
        self.srcs = srcs
        self.fns = fns
        self.p = p
        self.steps = None

    def describe(self):
        return {
            "tool": self.tool,
            "sources": [s.describe() for s in self.srcs],
            "callables": [f.describe() if f is not None else None for f in self.fns],
            "params": {k: repr(v) for k, v in self.p.items() if v is not ABSENT},
        }

    def shape_key(self):
        """Hashable description without schedule/suspension detail (distinctness measure)"""
        return (
            self.tool,
            tuple([(s.flavour, tuple([(keyof(i) if type(i) is Item else repr(i)) for i in s.items]),
                    tuple([(bool(i) if type(i) is not Ambiguous else None) for i in s.items]) if self.tool in TRUTHY_TOOLS else ())
                   for s in self.srcs]),
            tuple([(f.kind, f.flavour, f.param if type(f.param) is int else 0) if f is not None else None
                   for f in self.fns]),
            tuple(sorted([(k, repr(v)) for k, v in self.p.items() if v is not ABSENT])),
        )


class _Neutral:
    """The neutral element of every ``+``: ``NEUTRAL + x`` is ``x``"""

    def __add__(self, other):
        return other

    def __repr__(self):
        return "NEUTRAL"


NEUTRAL = _Neutral()

TRUTHY_TOOLS = ("filter", "filterfalse", "compress", "all", "any", "takewhile", "dropwhile")

TOOLS = {}
AGGS = {}


def _reg(table, name):
    def deco(cls):
        cls.name = name
        table[name] = cls()
        return cls
    return deco


def _kw(**kw):
    return {k: v for k, v in kw.items() if v is not ABSENT}


# =========================================================================== iterator tools
class ToolBase:
    infinite = False
    nsrc = (1, 1)

    def gen(self, g):  # -> Spec
        raise NotImplementedError

    def a(self, L, spec, S, F):  # asyncstdlib iterator
        raise NotImplementedError

    def r(self, spec, S, F):  # stdlib iterator
        raise NotImplementedError


@_reg(TOOLS, "zip")
class _Zip(ToolBase):
    nsrc = (1, 4)

    def gen(self, g):
        n = g.ch.between(1, 4) if not g.ch.chance(1, 12) else 0
        equal = g.ch.chance(1, 3)
        base = g.ch.draw(g.cfg.max_len + 1)
        srcs = [g.src(g.sprinkle(g.items(base if equal else None))) for _ in range(n)]
        strict = g.ch.chance(1, 2)
        if strict and n >= 3 and g.ch.chance(1, 3):
            # the first argument ends first: the strict check then has to look at the others in order
            srcs.sort(key=lambda p: len(p.items))
        return Spec("zip", srcs, [], {"strict": strict, "alias": g.alias(srcs)})

    def a(self, L, spec, S, F):
        return L.zip(*S, strict=spec.p["strict"])

    def r(self, spec, S, F):
        return builtins.zip(*S, strict=spec.p["strict"])


@_reg(TOOLS, "map")
class _Map(ToolBase):
    nsrc = (1, 3)

    def gen(self, g):
        n = g.ch.between(1, 3)
        srcs = [g.src(g.items()) for _ in range(n)]
        return Spec("map", srcs, [g.combiner()], {"alias": g.alias(srcs)})

    def a(self, L, spec, S, F):
        return L.map(F[0], *S)

    def r(self, spec, S, F):
        return builtins.map(F[0], *S)


@_reg(TOOLS, "filter")
class _Filter(ToolBase):
    def gen(self, g):
        fn = None if g.ch.chance(1, 4) else g.pred()
        return Spec("filter", [g.src(g.sprinkle(g.items(falsy=True)))], [fn], {})

    def a(self, L, spec, S, F):
        return L.filter(F[0], S[0])

    def r(self, spec, S, F):
        return builtins.filter(F[0], S[0])


@_reg(TOOLS, "filterfalse")
class _FilterFalse(ToolBase):
    def gen(self, g):
        fn = None if g.ch.chance(1, 4) else g.pred()
        return Spec("filterfalse", [g.src(g.sprinkle(g.items(falsy=True)))], [fn], {})

    def a(self, L, spec, S, F):
        return L.filterfalse(F[0], S[0])

    def r(self, spec, S, F):
        return itertools.filterfalse(F[0], S[0])


@_reg(TOOLS, "enumerate")
class _Enumerate(ToolBase):
    def gen(self, g):
        start = ABSENT if not g.ch.chance(1, 2) else g.ch.draw(5) - 2
        return Spec("enumerate", [g.src(g.sprinkle(g.items()))], [], {"start": start})

    def a(self, L, spec, S, F):
        return L.enumerate(S[0], **_kw(start=spec.p["start"]))

    def r(self, spec, S, F):
        return builtins.enumerate(S[0], **_kw(start=spec.p["start"]))


@_reg(TOOLS, "iter_sentinel")
class _IterSentinel(ToolBase):
    nsrc = (0, 0)

    def gen(self, g):
        feed = g.items()
        # the sentinel equals (but is not) some element, or equals nothing
        sentinel = g.item(key=g.ch.draw(g.cfg.keyspace + 1))
        return Spec("iter_sentinel", [], [g.fn("feed", feed)], {"sentinel": sentinel})

    def a(self, L, spec, S, F):
        return L.iter(F[0], spec.p["sentinel"])

    def r(self, spec, S, F):
        return builtins.iter(F[0], spec.p["sentinel"])


@_reg(TOOLS, "accumulate")
class _Accumulate(ToolBase):
    def gen(self, g):
        fn = None if g.ch.chance(1, 3) else g.fn("combine")
        initial = ABSENT if not g.ch.chance(1, 2) else g.item()
        items = g.items()
        if fn is None and g.cfg.odd_items and g.ch.chance(1, 4):
            # mutable items: the default reduction must build new objects, never add in place
            items = [[i] for i in items]
            if initial is not ABSENT:
                initial = [initial]
        return Spec("accumulate", [g.src(items)], [fn], {"initial": initial})

    def a(self, L, spec, S, F):
        if F[0] is None:
            return L.accumulate(S[0], **_kw(initial=spec.p["initial"]))
        return L.accumulate(S[0], F[0], **_kw(initial=spec.p["initial"]))

    def r(self, spec, S, F):
        kw = _kw(initial=spec.p["initial"])
        if not kw:
            # documented deviation: empty iterable without initial raises TypeError
            return _accumulate_doc(S[0], F[0])
        return itertools.accumulate(S[0], F[0], **kw)


def _accumulate_doc(it, fn):
    inner = itertools.accumulate(it, fn)
    try:
        first = next(inner)
    except StopIteration:
        raise TypeError("accumulate() of empty sequence with no initial value") from None
    yield first
    yield from inner


def _ref_batched(it, n, strict):
    """itertools.batched of 3.13 (``strict``), on top of the 3.12 primitives"""
    if n < 1:
        raise ValueError("n must be at least one")
    it = iter(it)
    while True:
        batch = tuple(itertools.islice(it, n))
        if not batch:
            return
        if strict and len(batch) != n:
            raise ValueError("batched(): incomplete batch")
        yield batch


@_reg(TOOLS, "batched")
class _Batched(ToolBase):
    def gen(self, g):
        n = g.ch.between(1, 4) if not g.ch.chance(1, 10) else 0
        if g.cfg.huge and g.ch.chance(1, 2):
            n = 257 + g.ch.draw(40)
        strict = ABSENT if not g.ch.chance(1, 2) else g.ch.chance(1, 2)
        return Spec("batched", [g.src(g.sprinkle(g.items()))], [], {"n": n, "strict": strict})

    def a(self, L, spec, S, F):
        return L.batched(S[0], spec.p["n"], **_kw(strict=spec.p["strict"]))

    def r(self, spec, S, F):
        strict = spec.p["strict"]
        if strict is ABSENT and spec.p["n"] >= 1:
            return itertools.batched(S[0], spec.p["n"])
        return _ref_batched(S[0], spec.p["n"], bool(strict) if strict is not ABSENT else False)


@_reg(TOOLS, "chain")
class _Chain(ToolBase):
    nsrc = (0, 4)

    def gen(self, g):
        n = g.ch.draw(5)
        srcs = [g.src(g.sprinkle(g.items())) for _ in range(n)]
        form = g.ch.draw(3)  # 0 chain(*its) 1 from_iterable(list) 2 from_iterable(lazy outer source)
        if form == 2:
            # the last source is the lazy outer iterable; its items are the member objects (filled in per world)
            srcs.append(g.src([]))
            srcs[-1].name += "outer"
        p = {"form": form, "alias": g.alias(srcs) if form == 0 else None}
        if form == 0 and n >= 2 and not p["alias"] and g.cfg.odd_sources and g.ch.chance(1, 5):
            # a chain inside a chain: the inner one over the first m sources is advanced k items by its owner and then
            # handed to an outer chain (once, or - the same object - twice) together with the remaining sources
            p["nested"] = (g.ch.between(1, n), g.ch.draw(4), g.ch.chance(1, 4))
        return Spec("chain", srcs, [], p)

    def a(self, L, spec, S, F):
        form = spec.p["form"]
        if form == 0 and spec.p.get("nested"):
            m, k, twice = spec.p["nested"]
            rest = list(S[m:])

            class NestedChain:
                """The owner of both chains: advances the inner one k items, then hands it to the outer one"""

                def __init__(self):
                    self.inner = L.chain(*S[:m])
                    self.outer = None
                    self.pre = k

                def __aiter__(self):
                    return self

                def _outer(self):
                    if self.outer is None:
                        self.outer = L.chain(self.inner, self.inner, *rest) if twice else L.chain(self.inner, *rest)
                    return self.outer

                async def __anext__(self):
                    while self.pre > 0:
                        self.pre -= 1
                        try:
                            return await self.inner.__anext__()
                        except StopAsyncIteration:
                            self.pre = 0
                        except BaseException:
                            # the owner gives up: it releases what it still holds itself (the sources meant for the
                            # outer chain have not been handed to the library yet)
                            self.pre = 0
                            await self.aclose()
                            raise
                    return await self._outer().__anext__()

                async def aclose(self):
                    # (a chain closes what it was given, advanced or not: the outer one is made for that if need be)
                    await self._outer().aclose()
                    await self.inner.aclose()

            return NestedChain()
        if form == 0:
            return L.chain(*S)
        if form == 1:
            return L.chain.from_iterable(list(S))
        return L.chain.from_iterable(S[-1])

    def r(self, spec, S, F):
        if spec.p["form"] == 0 and spec.p.get("nested"):
            m, k, twice = spec.p["nested"]

            def driver():
                inner = itertools.chain(*S[:m])
                for _ in range(k):
                    try:
                        item = next(inner)
                    except StopIteration:
                        break
                    yield item
                yield from (itertools.chain(inner, inner, *S[m:]) if twice else itertools.chain(inner, *S[m:]))

            return driver()
        if spec.p["form"] == 0:
            return itertools.chain(*S)
        if spec.p["form"] == 1:
            return itertools.chain.from_iterable(iter(list(S)))
        return itertools.chain.from_iterable(S[-1])


@_reg(TOOLS, "compress")
class _Compress(ToolBase):
    nsrc = (2, 2)

    def gen(self, g):
        data = g.src(g.sprinkle(g.items()))
        sel = g.src(g.items(falsy=True))
        return Spec("compress", [data, sel], [], {})

    def a(self, L, spec, S, F):
        return L.compress(S[0], S[1])

    def r(self, spec, S, F):
        return itertools.compress(S[0], S[1])


@_reg(TOOLS, "cycle")
class _Cycle(ToolBase):
    infinite = True

    def gen(self, g):
        return Spec("cycle", [g.src(g.sprinkle(g.items()))], [], {"mutate": g.ch.chance(1, 3)})

    def a(self, L, spec, S, F):
        src = S[0]
        if spec.p.get("mutate") and type(src) is list and src:
            # the caller changes its list after the first pass: cycle replays what it saved (like itertools.cycle,
            # whose twin here iterates a one-shot iterator and cannot see the change either)
            n0 = len(src)

            async def driver():
                it = L.cycle(src)
                n = 0
                try:
                    async for item in it:
                        yield item
                        n += 1
                        if n == n0 + 1:
                            # (the first replayed item is out: the list's own iterator has certainly reported its end)
                            src.append(Item(0, ("appended-after-the-first-pass",)))
                finally:
                    await it.aclose()

            return driver()
        return L.cycle(src)

    def r(self, spec, S, F):
        return itertools.cycle(S[0])


@_reg(TOOLS, "dropwhile")
class _DropWhile(ToolBase):
    def gen(self, g):
        return Spec("dropwhile", [g.src(g.sprinkle(g.items(falsy=True)))], [g.pred()], {})

    def a(self, L, spec, S, F):
        return L.dropwhile(F[0], S[0])

    def r(self, spec, S, F):
        return itertools.dropwhile(F[0], S[0])


@_reg(TOOLS, "takewhile")
class _TakeWhile(ToolBase):
    def gen(self, g):
        return Spec("takewhile", [g.src(g.sprinkle(g.items(falsy=True)))], [g.pred()], {})

    def a(self, L, spec, S, F):
        return L.takewhile(F[0], S[0])

    def r(self, spec, S, F):
        return itertools.takewhile(F[0], S[0])


@_reg(TOOLS, "islice")
class _ISlice(ToolBase):
    def gen(self, g):
        items = g.sprinkle(g.items())
        hi = len(items) + 3

        def val(allow_none=True):
            v = g.big(hi + (1 if allow_none else 0))
            return None if v == hi else v

        form = g.ch.draw(3)
        if form == 0:
            args = (val(),)
        elif form == 1:
            args = (val(), val())
        else:
            step = g.ch.draw(5)
            args = (val(), val(), None if step == 0 else step)
        return Spec("islice", [g.src(items)], [], {"args": args})

    def a(self, L, spec, S, F):
        return L.islice(S[0], *spec.p["args"])

    def r(self, spec, S, F):
        return itertools.islice(S[0], *spec.p["args"])


@_reg(TOOLS, "pairwise")
class _Pairwise(ToolBase):
    def gen(self, g):
        return Spec("pairwise", [g.src(g.sprinkle(g.items()))], [], {})

    def a(self, L, spec, S, F):
        return L.pairwise(S[0])

    def r(self, spec, S, F):
        return itertools.pairwise(S[0])


@_reg(TOOLS, "starmap")
class _StarMap(ToolBase):
    def gen(self, g):
        n = g.ch.draw(g.cfg.max_len + 1)
        rows = [tuple(g.items(g.ch.between(1, 3))) for _ in range(n)]
        return Spec("starmap", [g.src(rows)], [g.combiner()], {})

    def a(self, L, spec, S, F):
        return L.starmap(F[0], S[0])

    def r(self, spec, S, F):
        return itertools.starmap(F[0], S[0])


@_reg(TOOLS, "zip_longest")
class _ZipLongest(ToolBase):
    nsrc = (1, 4)

    def gen(self, g):
        n = g.ch.between(1, 4) if not g.ch.chance(1, 12) else 0
        srcs = [g.src(g.sprinkle(g.items())) for _ in range(n)]
        fill = ABSENT if not g.ch.chance(1, 2) else g.item()
        pool = [i for sp in srcs for i in sp.items]
        if fill is not ABSENT and pool and g.ch.chance(1, 3):
            fill = pool[g.ch.draw(len(pool))]  # the fill value is also one of the items (same object)
        return Spec("zip_longest", srcs, [], {"fillvalue": fill, "alias": g.alias(srcs)})

    def a(self, L, spec, S, F):
        return L.zip_longest(*S, **_kw(fillvalue=spec.p["fillvalue"]))

    def r(self, spec, S, F):
        return itertools.zip_longest(*S, **_kw(fillvalue=spec.p["fillvalue"]))


def _sorted_items(g, n, keyplan, reverse):
    items = g.items(n)
    if keyplan is None:
        items.sort(reverse=reverse)
    else:
        items.sort(key=lambda it: _behave(keyplan.kind, keyplan.param, (it,), None), reverse=reverse)
    return items


@_reg(TOOLS, "merge")
class _Merge(ToolBase):
    nsrc = (0, 4)

    def gen(self, g):
        n = g.ch.between(1, 4) if not g.ch.chance(1, 12) else 0
        key = g.keyfn()
        reverse = g.ch.chance(1, 2)
        srcs = [g.src(_sorted_items(g, None, key, reverse)) for _ in range(n)]
        return Spec("merge", srcs, [key], {"reverse": reverse})

    def a(self, L, spec, S, F):
        return L.merge(*S, key=F[0], reverse=spec.p["reverse"])

    def r(self, spec, S, F):
        return heapq.merge(*S, key=F[0], reverse=spec.p["reverse"])


@_reg(TOOLS, "tee")
class _Tee(ToolBase):
    """tee children advanced sequentially in a seeded order - some closed early on the way; yields (child, item)"""

    def gen(self, g):
        n = g.ch.between(1, 4)
        items = g.sprinkle(g.items())
        # an entry c >= 0 advances child c, an entry -1 - c closes it (a closed child is at its end from then on)
        order = [g.ch.draw(n) if not g.ch.chance(1, 8) else -1 - g.ch.draw(n) for _ in range((len(items) + 1) * n)]
        # the driver may go on with the other children after one of them has raised (an error of the source)
        # (only over class-based sources: those go on after an error in both worlds, generators and adapted sync
        # iterables are finished by an exception passing through them)
        src = g.src(items)
        carry_on = g.ch.chance(1, 2) and src.flavour in ("aiter_cls", "aiter_noclose", "aiter_full", "aiterable")
        p = {"n": n, "order": tuple(order), "carry_on": carry_on}
        # the children are advanced by one consumer in turn, yet the tee may be given a lock all the same (a plain mutex
        # that never suspends): it is taken and released within each step - a step that found it held would wait for ever
        p["lock"] = g.cfg.odd_sources and g.ch.chance(1, 4)
        if order and g.cfg.odd_sources and g.ch.chance(1, 5):
            # at one point of the history a child (lagging or not) is split again: tee(child, 2) - its two halves take
            # its place and a new last place; entries naming that new place do nothing before the split
            p["retee"] = (g.ch.draw(len(order)), g.ch.draw(n))
            p["carry_on"] = False  # (the halves' source is a tee child - a generator, finished by an error passing through)
            p["order"] = tuple(c if (c < 0 or not g.ch.chance(1, 4)) else n for c in order)
        return Spec("tee", [src], [], p)

    def a(self, L, spec, S, F):
        if spec.p.get("lock"):
            class PlainLock:
                held = False

                async def __aenter__(self):
                    if self.held:
                        raise RuntimeError("deadlock: the tee's lock is taken while a step of a sibling still holds it")
                    self.held = True

                async def __aexit__(self, *exc):
                    self.held = False

            handle = L.tee(S[0], spec.p["n"], lock=PlainLock())
        else:
            handle = L.tee(S[0], spec.p["n"])
        children = [handle[i] for i in range(len(handle))]
        order = spec.p["order"]
        stop = ("stop",)

        retee = spec.p.get("retee")
        subs = []

        async def driver():
            dead = set()
            try:
                for pos, c in enumerate(order):
                    if retee is not None and pos == retee[0]:
                        sub = L.tee(children[retee[1]], 2)
                        subs.append(sub)
                        children[retee[1]] = sub[0]
                        children.append(sub[1])
                        yield (retee[1], ("split",))
                    if c >= len(children) or -1 - c >= len(children):
                        continue
                    if c < 0:
                        await children[-1 - c].aclose()
                        yield (-1 - c, ("closed",))
                        continue
                    try:
                        item = await children[c].__anext__()
                    except StopAsyncIteration:
                        yield (c, stop)
                    except Exception as err:
                        if not spec.p.get("carry_on") or isinstance(err, Cancel):
                            raise
                        dead.add(c)
                        yield (c, ("raised", type(err).__name__))
                    else:
                        yield (c, item)
            finally:
                for sub in subs:
                    await sub.aclose()
                await handle.aclose()

        return driver()

    def r(self, spec, S, F):
        children = list(itertools.tee(S[0], spec.p["n"]))
        order = spec.p["order"]
        stop = ("stop",)
        retee = spec.p.get("retee")

        def driver():
            closed = set()
            for pos, c in enumerate(order):
                if retee is not None and pos == retee[0]:
                    k = retee[1]
                    a2, b2 = itertools.tee(children[k], 2)
                    children[k] = a2
                    children.append(b2)
                    if k in closed:
                        closed.add(len(children) - 1)  # the halves of a closed child are at their end as well
                    yield (k, ("split",))
                if c >= len(children) or -1 - c >= len(children):
                    continue
                if c < 0:
                    closed.add(-1 - c)  # itertools children have no close: a closed child is one nobody advances
                    yield (-1 - c, ("closed",))
                    continue
                if c in closed:
                    yield (c, stop)
                    continue
                try:
                    item = next(children[c])
                except StopIteration:
                    yield (c, stop)
                except Exception as err:
                    if not spec.p.get("carry_on"):
                        raise
                    # (a child that raised is finished: an async generator ends with the exception it lets out)
                    closed.add(c)
                    yield (c, ("raised", type(err).__name__))
                else:
                    yield (c, item)

        return driver()


@_reg(TOOLS, "groupby")
class _GroupBy(ToolBase):
    """groupby flattened by a seeded consumption pattern: ('key', k) then up to `peek` items of each group"""

    def gen(self, g):
        items = g.items()
        key = g.keyfn()
        peeks = tuple(g.ch.draw(4) for _ in range(4))  # 3 = the whole group
        # after a new group arrived, step the handle of an earlier (now stale) group once
        stale = tuple(g.ch.weighted([4, 2, 2, 1]) for _ in range(4))  # 0 none, k: the group k positions back
        # ... either right away, or only after the first item of the new group has been taken
        late = tuple(g.ch.draw(2) for _ in range(4))
        # a group that was not read to its end is sometimes closed by its consumer (what islice / any / takewhile do)
        closes = tuple(g.ch.weighted([3, 1]) for _ in range(4))
        return Spec("groupby", [g.src(items)], [key], {"peeks": peeks, "stale": stale, "stale_late": late, "closes": closes})

    def a(self, L, spec, S, F):
        gb = L.groupby(S[0], F[0]) if F[0] is not None else L.groupby(S[0])
        peeks = spec.p["peeks"]

        stale = spec.p["stale"]
        late = spec.p.get("stale_late", (0, 0, 0, 0))
        closes = spec.p.get("closes", (0, 0, 0, 0))
        stop = ("stale-stop",)

        async def driver():
            n = 0
            groups = []
            try:
                async for key, group in gb:
                    yield ("key", key)
                    back = stale[n % 4]
                    old = groups[-back] if back and len(groups) >= back else None
                    if old is not None and not late[n % 4]:
                        try:
                            yield ("stale", await old.__anext__())
                        except StopAsyncIteration:
                            yield stop
                        old = None
                    groups.append(group)
                    peek = peeks[n % 4]
                    n += 1
                    taken = 0
                    async for item in group:
                        yield item
                        taken += 1
                        if old is not None:
                            # the new group's first item has been handed out: now step the stale one
                            try:
                                yield ("stale", await old.__anext__())
                            except StopAsyncIteration:
                                yield stop
                            old = None
                        if peek < 3 and taken >= peek:
                            break
                    if closes[(n - 1) % 4]:
                        await group.aclose()
                        yield ("group-closed",)  # (a point at which the consumer may stop using the groupby)
                if groups:
                    # the groupby has reported its end: every group handed out is at its end too
                    try:
                        yield ("after-end", await groups[-1].__anext__())
                    except StopAsyncIteration:
                        yield stop
            finally:
                await gb.aclose()

        return driver()

    def r(self, spec, S, F):
        gb = itertools.groupby(S[0], F[0]) if F[0] is not None else itertools.groupby(S[0])
        peeks = spec.p["peeks"]

        stale = spec.p["stale"]
        late = spec.p.get("stale_late", (0, 0, 0, 0))
        closes = spec.p.get("closes", (0, 0, 0, 0))
        stop = ("stale-stop",)

        def driver():
            n = 0
            groups = []
            for key, group in gb:
                yield ("key", key)
                back = stale[n % 4]
                old = groups[-back] if back and len(groups) >= back else None
                if old is not None and not late[n % 4]:
                    try:
                        yield ("stale", next(old))
                    except StopIteration:
                        yield stop
                    old = None
                groups.append(group)
                peek = peeks[n % 4]
                n += 1
                taken = 0
                for item in group:
                    yield item
                    taken += 1
                    if old is not None:
                        try:
                            yield ("stale", next(old))
                        except StopIteration:
                            yield stop
                        old = None
                    if peek < 3 and taken >= peek:
                        break
                if closes[(n - 1) % 4]:
                    yield ("group-closed",)
            if groups:
                try:
                    yield ("after-end", next(groups[-1]))
                except StopIteration:
                    yield stop

        return driver()


TOOL_NAMES = tuple(TOOLS)


# =========================================================================== aggregations
class AggBase:
    short_circuit = False

    def gen(self, g):
        raise NotImplementedError

    def a(self, L, spec, S, F):  # -> awaitable
        raise NotImplementedError

    def r(self, spec, S, F):  # -> value (calls the stdlib)
        raise NotImplementedError

    def args_to_snapshot(self, spec, S):
        return []


def _odd_items(g, items):
    """Occasionally make the stdlib raise: an unorderable item somewhere"""
    if items and g.cfg.odd_items and g.ch.chance(1, 10):
        g.uid += 1
        items[g.ch.draw(len(items))] = Unorderable(g.uid)
    return items


def _ambiguous(g, items):
    """Occasionally an item whose truth value cannot be taken (it raises): only what is looked at can fail"""
    if items and g.cfg.odd_items and g.ch.chance(1, 6):
        g.uid += 1
        items[g.ch.draw(len(items))] = Ambiguous(g.uid)
    return items


@_reg(AGGS, "all")
class _All(AggBase):
    short_circuit = True

    def gen(self, g):
        return Spec("all", [g.src(_ambiguous(g, g.items(falsy=True)))], [], {})

    def a(self, L, spec, S, F):
        return L.all(S[0])

    def r(self, spec, S, F):
        return builtins.all(S[0])


@_reg(AGGS, "any")
class _Any(AggBase):
    short_circuit = True

    def gen(self, g):
        return Spec("any", [g.src(_ambiguous(g, g.items(falsy=True)))], [], {})

    def a(self, L, spec, S, F):
        return L.any(S[0])

    def r(self, spec, S, F):
        return builtins.any(S[0])


@_reg(AGGS, "sum")
class _Sum(AggBase):
    def gen(self, g):
        mode = g.ch.draw(4)
        n = g.ch.draw(g.cfg.max_len + 1)
        if mode == 0:  # Items, start absent/int/Item
            items = g.items(n)
            start = (ABSENT, 0, 3)[g.ch.draw(3)] if not g.ch.chance(1, 4) else g.item()
        elif mode == 1:  # mixed numerics
            pool = (1, 2.5, True, 0, -3, 0.5, 4.25, False, -0.0)
            items = [pool[g.ch.draw(len(pool))] for _ in range(n)]
            start = (ABSENT, 0, 1.5, True)[g.ch.draw(4)]
        elif mode == 2:  # lists with a list start: the start must not be mutated
            items = [g.items(g.ch.draw(3)) for _ in range(n)]
            start = g.items(g.ch.draw(3))
        else:  # tuples
            items = [tuple(g.items(g.ch.draw(3))) for _ in range(n)]
            start = tuple(g.items(g.ch.draw(2)))
        if g.cfg.odd_items and g.ch.chance(1, 12):
            # strings (or bytes) summed onto a neutral start object (``start + x`` is ``x``): the builtin refuses a *start*
            # that is a string, nothing else - what the running total becomes is not its business
            items = [(b"a", b"bc", b"")[g.ch.draw(3)] if n % 2 else ("a", "bc", "")[g.ch.draw(3)] for _ in range(n)]
            start = NEUTRAL
        return Spec("sum", [g.src(items)], [], {"start": start})

    def a(self, L, spec, S, F):
        st = spec.p["start"]
        return L.sum(S[0]) if st is ABSENT else L.sum(S[0], st)

    def r(self, spec, S, F):
        st = spec.p["start"]
        if type(st) is list:
            st = list(st)  # the reference gets its own copy: stdlib must not be blamed
        return builtins.sum(S[0]) if st is ABSENT else builtins.sum(S[0], st)


class _MinMax(AggBase):
    which = "min"

    def gen(self, g):
        items = _odd_items(g, g.items())
        key = g.keyfn(unorderable=True, single_pass=True)
        default = g.optional()
        return Spec(self.which, [g.src(items)], [key], {"default": default})

    def a(self, L, spec, S, F):
        kw = _kw(default=spec.p["default"])
        if F[0] is not None or (spec.p.get("explicit_none_key")):
            kw["key"] = F[0]
        return getattr(L, self.which)(S[0], **kw)

    def r(self, spec, S, F):
        kw = _kw(default=spec.p["default"])
        if F[0] is not None:
            kw["key"] = F[0]
        return getattr(builtins, self.which)(S[0], **kw)


@_reg(AGGS, "min")
class _Min(_MinMax):
    which = "min"


@_reg(AGGS, "max")
class _Max(_MinMax):
    which = "max"


class _Collect(AggBase):
    which = "list"

    def gen(self, g):
        items = g.items()
        if self.which == "set" and items and g.cfg.odd_items and g.ch.chance(1, 10):
            items[g.ch.draw(len(items))] = [g.item()]  # unhashable
        return Spec(self.which, [g.src(items)], [], {})

    def a(self, L, spec, S, F):
        return getattr(L, self.which)(S[0])

    def r(self, spec, S, F):
        return getattr(builtins, self.which)(S[0])


@_reg(AGGS, "list")
class _List(_Collect):
    which = "list"


@_reg(AGGS, "tuple")
class _Tuple(_Collect):
    which = "tuple"


@_reg(AGGS, "set")
class _Set(_Collect):
    which = "set"


@_reg(AGGS, "dict")
class _Dict(AggBase):
    def gen(self, g):
        n = g.ch.draw(g.cfg.max_len + 1)
        pairs = [(g.item(), g.item()) for _ in range(n)]
        if pairs and g.cfg.odd_items and g.ch.chance(1, 10):
            pairs[g.ch.draw(n)] = ([g.item()], g.item())  # unhashable key
        elif pairs and g.cfg.odd_items and g.ch.chance(1, 10):
            pairs[g.ch.draw(n)] = (g.item(), g.item(), g.item())  # not a pair
        elif pairs and g.cfg.odd_items and g.ch.chance(1, 5):
            # pairs of other shapes: a list, something that only unpacks (iterable, not indexable), a 2-character
            # string, a single-element tuple (not a pair either)
            for _ in range(g.ch.between(1, 2)):
                pos = g.ch.draw(n)
                shape = g.ch.draw(4)
                k, v = g.item(), g.item()
                pairs[pos] = ([k, v], PairIterable(k, v), "ab", (k,))[shape]
        kwargs = {}
        if g.ch.chance(1, 4):
            kwargs = {"kw%d" % i: g.item() for i in range(g.ch.between(1, 2))}
        return Spec("dict", [g.src(pairs)], [], {"kwargs": kwargs})

    def a(self, L, spec, S, F):
        return L.dict(S[0], **spec.p["kwargs"])

    def r(self, spec, S, F):
        return builtins.dict(S[0], **spec.p["kwargs"])


@_reg(AGGS, "sorted")
class _Sorted(AggBase):
    def gen(self, g):
        items = _odd_items(g, g.items())
        return Spec("sorted", [g.src(items)], [g.keyfn(unorderable=True)], {"reverse": g.ch.chance(1, 2)})

    def a(self, L, spec, S, F):
        return L.sorted(S[0], key=F[0], reverse=spec.p["reverse"])

    def r(self, spec, S, F):
        return builtins.sorted(S[0], key=F[0], reverse=spec.p["reverse"])


@_reg(AGGS, "reduce")
class _Reduce(AggBase):
    def gen(self, g):
        initial = g.optional()
        return Spec("reduce", [g.src(g.items())], [g.fn("combine")], {"initial": initial})

    def a(self, L, spec, S, F):
        ini = spec.p["initial"]
        return L.reduce(F[0], S[0]) if ini is ABSENT else L.reduce(F[0], S[0], ini)

    def r(self, spec, S, F):
        ini = spec.p["initial"]
        return functools.reduce(F[0], S[0]) if ini is ABSENT else functools.reduce(F[0], S[0], ini)


class _NBest(AggBase):
    which = "nlargest"

    def gen(self, g):
        items = _odd_items(g, g.items())
        n = g.big(len(items) + 3)
        return Spec(self.which, [g.src(items)], [g.keyfn(unorderable=True)], {"n": n})

    def a(self, L, spec, S, F):
        if F[0] is None:
            return getattr(L, self.which)(S[0], spec.p["n"])
        return getattr(L, self.which)(S[0], spec.p["n"], key=F[0])

    def r(self, spec, S, F):
        # heapq short-cuts to sorted()[:n] for *sized* iterables with n >= len: same result, but another order of
        # pulls and key calls than its general algorithm, which is the one being compared; hide the size
        src = iter(S[0]) if hasattr(S[0], "__len__") else S[0]
        return getattr(heapq, self.which)(spec.p["n"], src, key=F[0])


@_reg(AGGS, "nlargest")
class _NLargest(_NBest):
    which = "nlargest"


@_reg(AGGS, "nsmallest")
class _NSmallest(_NBest):
    which = "nsmallest"


AGG_NAMES = tuple(AGGS)
