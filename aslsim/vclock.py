"""
The clock seam: ``time.monotonic`` / ``time.time`` / ``time.perf_counter`` (and their ``_ns`` twins) as seen by the
code under test.  Installed once per process before the library is imported; outside a simulated run the real
clocks answer, inside a run the virtual clock does.  Nothing in the simulator reads it - it exists so that code
whose behaviour depends on elapsed wall time meets controlled, repeatable time: sources declared *slow* let
virtual seconds pass inside their ``__next__`` / ``__anext__`` (DESIGN.md 13, round 5).
"""

import time


class _VClock:
    __slots__ = ("active", "now", "reads")

    def __init__(self):
        self.active = False
        self.now = 1000.0
        self.reads = 0

    def reset(self):
        self.now = 1000.0
        self.reads = 0

    def advance(self, seconds):
        self.now += seconds


VCLOCK = _VClock()
_installed = []


def _wrap(real, ns):
    def clock():
        vc = VCLOCK
        if vc.active:
            vc.reads += 1
            vc.now += 1e-6
            return int(vc.now * 1e9) if ns else vc.now
        return real()

    clock.__name__ = real.__name__
    clock.__wrapped__ = real
    return clock


def install():
    if _installed:
        return
    _installed.append(True)
    for name in ("monotonic", "time", "perf_counter", "process_time"):
        setattr(time, name, _wrap(getattr(time, name), False))
        setattr(time, name + "_ns", _wrap(getattr(time, name + "_ns"), True))
