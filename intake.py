#!/usr/bin/env python3
"""Take a sub-agent's seeded change from /tmp/mut/<Cxx>/OUT into /verif/seeded/<Cxx>-<tag>/ (patch, demo, meta)."""
import json
import os
import shutil
import sys

pid, variant, tag, needs = sys.argv[1], sys.argv[2], sys.argv[3], sys.argv[4]
desc = sys.argv[5] if len(sys.argv) > 5 else ""
root = os.environ.get("MUTROOT", "/tmp/mut")
src = "%s/%s/OUT" % (root, pid)
suffix = "" if (variant == "1" and not os.path.exists(os.path.join(src, "patch1.diff"))) else variant
dst = "/verif/seeded/%s-%s" % (pid, tag)
os.makedirs(dst, exist_ok=True)
shutil.copy(os.path.join(src, "patch%s.diff" % suffix), os.path.join(dst, "patch.diff"))
shutil.copy(os.path.join(src, "demo%s.py" % suffix), os.path.join(dst, "demo.py"))
if os.path.exists(os.path.join(src, "notes.md")):
    shutil.copy(os.path.join(src, "notes.md"), os.path.join(dst, "agent_notes.md"))
meta = {"id": "%s-%s" % (pid, tag), "property": pid, "patch": "patch.diff", "demo": "demo.py",
        "what": desc, "needs": needs, "author": "independent sub-agent given only the property text and a scratch worktree",
        "verified_by": "run.py selftest seeded %s-%s: scratch copy of /repo + patch; shipped test-suite passes; demo fails "
                       "with the patch and passes without; quick check of the property run with VERIF_REPO=<scratch>" % (pid, tag)}
json.dump(meta, open(os.path.join(dst, "meta.json"), "w"), indent=1)
print(dst)
