#!/usr/bin/env python3
"""Rewrites section 15 of DESIGN.md from seeded/*/meta.json and seeded/RESULTS.json."""
import glob
import json
import os

HERE = os.path.dirname(os.path.abspath(__file__))
results = {}
path = os.path.join(HERE, "seeded", "RESULTS.json")
if os.path.exists(path):
    for r in json.load(open(path))["results"]:
        results[r["id"]] = r
cross = {}
path = os.path.join(HERE, "seeded", "CROSS.json")
if os.path.exists(path):
    cross = json.load(open(path))
rows = []
for mpath in sorted(glob.glob(os.path.join(HERE, "seeded", "*", "meta.json"))):
    meta = json.load(open(mpath))
    r = results.get(meta["id"])
    own = r["checks"].get(meta["property"]) if r else None
    if own:
        det = "yes, run %s, %s" % (own["first_run_index"], ", ".join(sorted({c.split(" ")[0] for c in own["clauses"]})))
    else:
        det = "(not yet in RESULTS.json)"
    others = sorted(p for p, v in cross.get(meta["id"], {}).items() if v and p != meta["property"])
    rows.append("| `%s` | %s | %s | %s | %s |" % (meta["id"], meta["what"], meta["needs"], det, " ".join(others) or "-"))
text = """## 15. Seeded breaking changes and which checks catch them

Every change below was written by an independent sub-agent that saw only the text of one property and a
scratch worktree of the library (nothing from /verif), passes the 388 shipped tests, and comes with a
demonstration that fails with the change and passes without it; I re-verified all of that in a fresh scratch copy
(`run.py selftest seeded`, results in `seeded/RESULTS.json`). "detected" = the quick check of the property the change
was written against printed a VIOLATION when run with `VERIF_REPO=<scratch copy with the patch>`; the run index is
the first violating run of that batch (budget: the quick tier). "also caught by" lists other properties' quick
checks (run at a tenth of their quick budget) that report a violation of their own on the same change.

Changes that were *missed* when first tried, and what was strengthened (all are detected now):
`C06-groupby-swallows-attributeerror` (groupby became a tool of the shared tool table, fault types now include
AttributeError/KeyError/IndexError/OSError/AssertionError), `C08-athrow-forwarded-through-outer-handle` (nested scope
failing and being caught outside of it), `C17-sorted-executor-for-large-inputs` (input size is a knob: up to 20 000 items,
outcome compared with the stdlib when driven without a loop), `C17-cached-property-await-swallows-throw` (a throw that
never reaches the suspended awaitable is a breach of its own), `C20-groupby-remembers-all-groups` (groupby in C20),
`C07-athrow-not-disabled-without-asend` and `C07-internal-borrow-unwraps-handle` (tools and aggregations on the handle
are now judged by the stdlib tool over a model iterator, athrow through a closed handle, athrow-only iterators),
`C01-zip-strict-none-sentinel`, `C01-dropwhile-predicate-after-drop-raises`, `C01-zip_longest-all-fill-row-terminates`
(None among the items, fill value shared with an item), `C12-placeholder-reregisters-itself` (held awaitables awaited
again by any task, clause "no value from a run that started before the deletion preceding the access"),
`C18-scoped_iter-closes-in-wrapper-finally` (scoped_iter class in C18, block-level pauses in C08),
`C18-tee-lock-acquire-inside-try` (a lock released by a non-owner is a violation in C18 as well).

| id | change | needs to manifest | detected by its property's check | also caught by |
|----|--------|-------------------|----------------------------------|----------------|
""" + "\n".join(rows) + "\n"
p = os.path.join(HERE, "DESIGN.md")
s = open(p).read()
i = s.index("## 15. Seeded breaking changes")
open(p, "w").write(s[:i] + text)
print(len(rows), "rows")
