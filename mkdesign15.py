#!/usr/bin/env python3
"""Rewrites section 15 of DESIGN.md from seeded/*/meta.json and seeded/RESULTS.json."""
import glob
import json
import os

HERE = os.path.dirname(os.path.abspath(__file__))
results = {}
path = os.path.join(HERE, "seeded", "RESULTS.json")
if os.path.exists(path):
    for r in json.load(open(path))["results"]:
        results[r["id"]] = r
cross = {}
path = os.path.join(HERE, "seeded", "CROSS.json")
if os.path.exists(path):
    cross = json.load(open(path))
rows = []
for mpath in sorted(glob.glob(os.path.join(HERE, "seeded", "*", "meta.json"))):
    meta = json.load(open(mpath))
    r = results.get(meta["id"])
    own = r["checks"].get(meta["property"]) if r else None
    if own:
        det = "yes, run %s, %s" % (own["first_run_index"], ", ".join(sorted({c.split(" ")[0] for c in own["clauses"]})))
    else:
        det = "(not yet in RESULTS.json)"
    others = sorted(p for p, v in cross.get(meta["id"], {}).items() if v and p != meta["property"])
    rows.append("| `%s` | %s | %s | %s | %s |" % (meta["id"], meta["what"], meta["needs"], det, " ".join(others) or "-"))
text = """## 15. Seeded breaking changes and which checks catch them

Every change below was written by an independent sub-agent that saw only the text of one property and a
scratch worktree of the library (nothing from /verif), passes the 388 shipped tests, and comes with a
demonstration that fails with the change and passes without it; I re-verified all of that in a fresh scratch copy
(`run.py selftest seeded`, results in `seeded/RESULTS.json`). "detected" = the quick check of the property the change
was written against printed a VIOLATION when run with `VERIF_REPO=<scratch copy with the patch>`; the run index is
the first violating run of that batch (budget: the quick tier). "also caught by" lists other properties' quick
checks (run at a tenth of their quick budget) that report a violation of their own on the same change.

Changes that were *missed* when first tried, by round, and what was strengthened (every one is detected now; the
first three rounds of agents got only a property text, the fourth round was additionally told which ideas had been
used already and asked for triggers that random testing is unlikely to hit):

* round 1 (5 of 51 missed): `C06-groupby-swallows-attributeerror` (groupby joined the shared tool table; fault types now
  include AttributeError/KeyError/IndexError/OSError/AssertionError), `C08-athrow-forwarded-through-outer-handle` (a nested
  scope failing and being caught outside of it), `C17-sorted-executor-for-large-inputs` (input size is a knob, up to 20 000
  items, outcome compared with the stdlib when driven without a loop), `C17-cached-property-await-swallows-throw` (a throw
  that never reaches the suspended awaitable is a breach of its own), `C20-groupby-remembers-all-groups` (groupby in C20).
* round 2 (8 of 31): `C07-athrow-not-disabled-without-asend`, `C07-internal-borrow-unwraps-handle` (tools and aggregations on
  the handle are judged by the stdlib function over a model iterator; athrow through a closed handle; athrow-only
  iterators), `C01-zip-strict-none-sentinel`, `C01-dropwhile-predicate-after-drop-raises`,
  `C01-zip_longest-all-fill-row-terminates` (None among the items, fill value shared with an item),
  `C12-placeholder-reregisters-itself` (held awaitables awaited again by any task; clause "no value from a run that started
  before the deletion preceding the access"), `C18-scoped_iter-closes-in-wrapper-finally` (scoped_iter class in C18,
  block-level pauses in C08), `C18-tee-lock-acquire-inside-try` (a lock released by a non-owner is a violation in C18 too).
* round 3 (10 of 30): `C08-scoped-handle-keeps-asend-after-scope` (dead handles probed through asend/athrow),
  `C13-func-keyword-collision` (keyword arguments with names the machinery uses), `C15-recreate-with-bound-arguments`
  (manager taking positional-only, *args, keyword-only and **opts), `C17-groupby-checkpoint-every-128` (long runs of equal
  keys), `C19-apply-memoises-by-identity` (one re-awaitable object for several parameters),
  `C19-await_each-drains-source-on-close` (source pulls and untouched leftovers are accounted),
  `C03-callback-awaits-only-coroutines` (ExitStack exit callables of every flavour), `C03-sync-freezes-first-verdict`
  (callables that answer with an awaitable only sometimes), `C16-none-key-means-no-target` (None as a key / item),
  `C20-chain-from_iterable-remembers-members` (lazily supplied container members).
* round 4 (19 of 36): `C01-accumulate-inplace-add` (mutable items, source objects must stay unchanged),
  `C01-merge-reuses-key-for-equal-items`, `C16-key-reused-for-equal-values` (a key that tells equal items apart),
  `C01-zip_longest-retires-all-slots-of-shared-iterator`, `C05-zip_longest-active-set` (one iterator object in two argument
  positions), `C03-awaitify-classes-treated-as-sync`, `C16-falsy-key-callable-ignored` (callable flavours: a class whose
  instances are awaitable, a falsy callable object, a future-like awaitable), `C05-stale-group-by-key-again` (the groupby
  driver steps earlier, stale groups), `C06-scopediter-aexit-returns-aclose-result`, `C08-exit-awaits-aclose-only-if-coroutine`
  (aclose returning a value / a plain def returning a non-coroutine awaitable), `C07-wrapper-loop-uses-none-sentinel`,
  `C07-aclose-wrapper-early-return-when-finished`, `C07-wrapper-closes-underlying-on-baseexception` (None items, borrowing
  a handle, transient errors of the underlying iterator), `C08-scoped-skips-close-for-borrowed-sources` (a borrowed handle
  given to scoped_iter), `C12-restart-handler-swallows-getter-keyerror` (getter error types), `C12-placeholder-holds-instance-weakly`
  (attribute of a temporary instance), `C17-chain-aclose-sleeps-while-running` (several tasks on one iterator),
  `C17-force_async-awaits-awaitable-results` (awaitables handed out as values), `C19-any_iter-iterates-futures`,
  `C19-apply-func-keyword-collision`, `C19-sync-eafp-swallows-typeerror` (future-like awaitables, keyword names, error types).
  One seeded change made a tool run forever on finite input and killed a worker: consumers now stop after 3000 items
  ("runaway") and the comparison with the stdlib reports it.
* round 5 (43 of 66; same adversarial brief, with the ideas of rounds 1-4 excluded): what was missing were mostly *kinds of
  object* the generators never produced, and a few oracles that looked at too little:
  - objects that test false: `C04-collection-builders-skip-falsy-iterables`, `C09-falsy-lock-replaced-by-nolock`,
    `C10-method-not-bound-for-falsy-instance`, `C12-get-tests-falsy-instance`, `C13/C14/C15-falsy-exception-*` (sources,
    locks, method holders, property owners and exception objects may now be falsy). The falsy source immediately exposed a
    real defect (F16, `dict` ignored it);
  - objects with value equality: `C13-same-exception-by-equality`, `C18-ziplongest-closes-equal-iterator-once`,
    `C01-awaitify-lru-cached-equal-callables` / `C03-awaitify-lru-cached` (equal exceptions, sources comparing equal,
    unhashable callables), `C01-reverse-merge-uses-ge` (items now define only `<` and `==`);
  - `None` / awaitables as plain data: `C02-reduce-none-as-no-initial` (explicit `None` for optional arguments where the
    stdlib takes it as a value), `C10-full-flag-confuses-none-result` (cached results may be `None` / falsy),
    `C16-identity-key-awaitified`, `C20-any-iter-remembers-awaited-items` (items that are awaitable objects);
  - argument shapes: `C10-kwarg-marker-dropped` (a positional tuple that looks like a keyword item),
    `C15-helper-parameters-not-positional-only`, `C15-decorated-partial-not-a-descriptor` (decorated methods, keyword names
    the decorator uses itself), `C19-any-iter-tests-asynciterator`, `C19-apply-awaits-result-of-coroutine-function`,
    `C12-placeholder-name...` (was caught), `C08-aexit-isinstance-acloseable` (a proxy forwarding `aclose` through
    `__getattr__`), `C05-cycle-replays-sequence-itself`, `C06-sync-set-mapping-snapshot` (user-defined
    `collections.abc.Sequence` / `Set` sources), `C08-zip-strict-advances-all-remaining`, (the handle as a later argument
    of the tool; C08 now samples exit points for three programs in four and runs 8000 programs in the quick tier);
  - histories: `C11-*` (three changes; the sequential continuation now starts from the contents left behind and is
    explained by a *set* of possible LRU states instead of being compared after a clear), `C14-suppress-flag-kept-on-instance`,
    `C14-ambient-exception-routed-to-exits` (every single unwind of a history is judged by the unwinding rule; everything
    also runs inside the handler of an unrelated exception), `C07-reborrow-copies-parent-anext` (ladders of 2..4 handles),
    `C09-no-cleanup-on-cancel-inside-anext` (a cancelled consumer that lets go of its child), `C04-tee-peer-cleanup-after-loop-only`
    (sources / key functions raising inside tee and groupby histories - which exposed F17), `C18-cachedproperty-cleanup-keyerror-on-cancel`
    (`del` while the getter is in flight);
  - more than one fault, more fault types: `C01-merge-pulls-all-heads-before-keys` (two parties prepared to fail, whichever
    the stdlib reaches first must win - iterators only), `C06-iter-sentinel-swallows-eoferror`,
    `C17-scopediter-shields-aclose-on-cancellederror` (EOFError, asyncio.CancelledError, ... as fault types),
    `C03-aiter-eafp-swallows-attributeerror` (an iterable whose `__iter__`/`__aiter__` itself raises),
    `C06-scopediter-athrows-into-source` (a generator source that survives exceptions thrown in; C06 now also forbids any
    use of *another* party once the failure is on its way), `C13-promotion-check-by-context`,
    `C13-normal-exit-swallows-promoted-stopasync` (generator raising its own RuntimeError / Stop*Iteration afterwards);
  - seams: `C17-sync-adapter-yields-after-slow-step` read the wall clock - `time.monotonic/time/perf_counter` are now a
    virtual clock inside runs and sources can be slow; `C17-teepeer-del-drives-cleanup-by-hand` drove a user awaitable by
    hand from `__del__` - tokens yielded and tokens received by the loop are now counted and must agree after everything
    has been dropped; `C03-sum-sync-fast-path` (inexact floats, str/bytes sums compared between flavours),
    `C20-tee-of-tee-child-joins-parent` (a tee of a tee child).
* round 6 (37 of 59 admitted changes missed at first; the brief now also excluded the *kinds* of trigger used so far;
  one delivered change was rejected as outside every property's domain, see `seeded_rejected/`):
  - numbers beyond 256 (`is` instead of `==`): `C01-islice-skip-compares-by-identity`, `C05-islice-skip-loop-identity-test`,
    `C02-nlargest-shortcut-compares-len-by-identity` (huge mode: 258..330 items, parameters near their upper end);
  - callables and sources: `C01-awaitify-async-dunder-call-shortcut` (a class whose instances have an async `__call__`),
    `C03-awaitify-unwraps-wrapped-metadata` (sync stand-in with `functools.wraps(async def)`), `C04-aiter-prefers-sync-protocol`,
    `C19-any-iter-prefers-sync-protocol`, `C14-enter-context-prefers-sync-protocol` (objects offering both protocols),
    `C08-aiter-called-twice` (every cursor an async iterable hands out wants closing), `C03-cycle-reiterates-collections`
    (the caller's list changed after the first pass), `C03-zip-returns-early-for-empty-sized-input` (the failing iterable
    keeps its flavour in C03's baseline);
  - exception classes: `C18-aenter-inside-attributeerror-try` (the cancellation thrown in may also be an AttributeError ...),
    `C02-reduce-loop-inside-empty-check-try` (StopAsyncIteration from a reducer), `C13-systemexit-closes-instead-of-throwing`,
    `C13-did-not-yield-message-uses-func-name` (partial generator functions), `C15-except-exc-type-before-stopasynciteration`,
    `C14-pushed-sync-exit-in-extra-coroutine` (StopIteration from a synchronous exit);
  - histories: `C14-unwind-loop-aliases-deque` (pop_all inside an exit), `C15-first-call-uses-the-decorating-instance` (one
    manager, two functions), `C16-*` (closing / draining stale groups, non-transitive keys, keys comparable only among
    themselves), `C06-stale-group-pulls-before-stale-check`, `C04-groupby-scan-path-not-released` (stale group stepped after
    the new group's first item; faults on skipped items), `C07-tee-caches-anext-and-close-seals` (tools kept across
    operations), `C07-aclose-swallows-already-running` (close during a pull in flight), `C10-*` (temporaries, colliding
    hashes, `lru_cache(f, typed)`), `C11-callkey-eq-hash-or-values`, `C11-discard-rebinds-empty-dict` (an unbounded cache
    still holds what was computed and never removed), `C12-value-stored-with-setattr`, `C12-dict-check-hoisted-to-owner-class`
    (owners forbidding assignment, slotted mixins), `C20-abandoned-first-step-skips-cleanup`, `C20-merge-gallops-runs-into-a-list`
    (block-wise merge inputs);
  - `C17-*`: a new "misc" population (one ExitStack unwound by two tasks, `closing` around a suspending `aclose`, caches
    over generator-based coroutines);
  - and an enumeration bug of the harness itself: C18 / C08 never cancelled at the *first* suspension point (fixed).
* round 7 (60 changes; 13 of the first 30 missed, the other 30 were met with extensions made from the agents' descriptions):
  see DESIGN section 13 "Round 7" for the list of extensions; two changes were re-filed under the property whose
  quantifier they need (`C09-tee-recheck-only-on-exhaustion`, `C08-asend-disabled-only-by-public-aclose`).
* round 8 (35 admitted changes for 14 properties, 5 missed at first; one rejected): see DESIGN section 13 "Round 8".
* round 9 (22 admitted changes for 8 properties, 10 missed at first; two more rejected): see DESIGN section 13 "Round 9".
* round 10 (34 admitted changes for 12 properties, 10 missed at first; two more rejected, one re-filed): see DESIGN section 13 "Round 10".
* round 11 (54 admitted changes for 19 properties, 18 missed at first; three more rejected, three re-filed; one round-9
  rejection re-admitted): see DESIGN section 13 "Round 11".
* round 12 (34 admitted changes for 12 properties, 11 missed at first; two more rejected, one re-filed; defect F18 found
  and repaired): see DESIGN section 13 "Round 12".
* round 13 (25 admitted changes for 12 properties, 14 missed at first; eleven rejected - repeats and out-of-domain
  situations -, one re-filed): see DESIGN section 13 "Round 13".

| id | change | needs to manifest | detected by its property's check | also caught by |
|----|--------|-------------------|----------------------------------|----------------|
""" + "\n".join(rows) + "\n"
p = os.path.join(HERE, "DESIGN.md")
s = open(p).read()
i = s.index("## 15. Seeded breaking changes")
open(p, "w").write(s[:i] + text)
print(len(rows), "rows")
