#!/usr/bin/env python3
"""Regenerates MANIFEST.json from the check modules' metadata (run from /verif)."""
import importlib
import json
import os
import sys

HERE = os.path.dirname(os.path.abspath(__file__))
sys.path.insert(0, HERE)

ALL = ["C%02d" % i for i in range(1, 21)]
PY = "/venv/bin/python"


def main():
    checks = []
    missing = []
    for pid in ALL:
        path = os.path.join(HERE, "aslsim", "checks", pid.lower() + ".py")
        if not os.path.exists(path):
            missing.append(pid)
            continue
        src = open(path).read()
        meta = {}
        # metadata is plain module-level constants; read without importing asyncstdlib
        mod = importlib.import_module("aslsim.checks." + pid.lower())
        checks.append({
            "property_id": pid,
            "quick_cmd": "timeout 1500 %s run.py check %s --tier quick" % (PY, pid),
            "thorough_cmd": "timeout 7000 %s run.py check %s --tier thorough" % (PY, pid),
            "evidence_file": "evidence/%s.json" % pid,
            "replay_cmd_template": "%s run.py replay {path}" % PY,
            "engine": "aslsim",
            "level_claimed": {
                "category": mod.LEVEL,
                "text": getattr(mod, "LEVEL_TEXT", mod.RULE),
                "design_ref": "DESIGN.md section 9, %s" % pid,
            },
            "level_note": "; ".join(mod.ASSUMPTIONS),
            "technique": getattr(mod, "TECHNIQUE", "deterministic simulation with fault injection: "
                                 "seeded scheduler + simulated streams/callables/locks, "
                                 "oracle = real stdlib twin or stated invariant"),
        })
    manifest = {
        "version": 1,
        "setup_cmd": "%s -m compileall -q aslsim run.py && timeout 600 %s run.py selftest determinism --quick" % (PY, PY),
        "hooks": {
            "guard": "ASYNCSTDLIB_VERIF",
            "enable": "no hook exists: every seam (streams, callables, locks, context managers, the event loop) "
                      "is a user-supplied argument of the library; checks import /repo's working tree unmodified",
            "baseline_off_cmd": "cd /repo && /venv/bin/python -m pytest -ra -q -p no:cacheprovider --timeout=900 --continue-on-collection-errors",
            "source_commits": [],
            "add_only": True,
        },
        "engines": [{
            "name": "aslsim",
            "path": "aslsim/",
            "serves_properties": [c["property_id"] for c in checks],
            "kind_free_text": "bespoke deterministic coroutine scheduler (token protocol, virtual clock, SimLock, "
                              "cancel/interrupt/close/raise fault injection, three recorded choice streams, "
                              "own shrinker, fresh-interpreter replay confirmation)",
        }],
        "checks": checks,
        "notes": "See DESIGN.md. Fixed defects and known findings: known_findings.json. "
                 "Seeded breaking changes used to test the checks: seeded/.",
        "not_applicable": [
            {"property_id": pid, "reason": "check not built yet in this round (planned, see DESIGN.md section 9); "
                                           "not claimed until it exists"}
            for pid in missing
        ],
    }
    with open(os.path.join(HERE, "MANIFEST.json"), "w") as fh:
        json.dump(manifest, fh, indent=1)
    print("checks:", [c["property_id"] for c in checks], "missing:", missing)


if __name__ == "__main__":
    main()
