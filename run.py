#!/venv/bin/python
"""
Single entry point of the verification machinery.

  run.py check <Cxx> [--tier quick|thorough] [--runs N] [--workers W]
  run.py replay <file> [--json]
  run.py selftest determinism|sensitivity ...
"""
import argparse
import os
import sys

HERE = os.path.dirname(os.path.abspath(__file__))
if HERE not in sys.path:
    sys.path.insert(0, HERE)
sys.dont_write_bytecode = True


def main(argv=None):
    ap = argparse.ArgumentParser()
    sub = ap.add_subparsers(dest="cmd", required=True)
    c = sub.add_parser("check")
    c.add_argument("pid")
    c.add_argument("--tier", default=os.environ.get("VERIF_TIER") or "quick")
    c.add_argument("--runs", type=int, default=None)
    c.add_argument("--workers", type=int, default=None)
    c.add_argument("--no-evidence", action="store_true")
    r = sub.add_parser("replay")
    r.add_argument("path")
    r.add_argument("--json", action="store_true")
    s = sub.add_parser("selftest")
    s.add_argument("what")
    s.add_argument("rest", nargs="*")
    args, extra = ap.parse_known_args(argv)
    if extra and args.cmd != "selftest":
        ap.error("unrecognized arguments: %s" % " ".join(extra))
    if args.cmd == "check":
        from aslsim.runner import run_check

        tier = args.tier if args.tier in ("quick", "thorough") else "quick"
        code, _, _ = run_check(args.pid.upper(), tier=tier, runs=args.runs, workers=args.workers,
                               write_evidence=not args.no_evidence)
        return code
    if args.cmd == "replay":
        from aslsim.runner import cmd_replay

        return cmd_replay(args.path, as_json=args.json)
    if args.cmd == "selftest":
        from aslsim import selftest

        return selftest.main(args.what, list(args.rest) + list(extra))
    return 2


if __name__ == "__main__":
    sys.exit(main())
