#!/usr/bin/env python3
"""Validate MANIFEST.json and evidence/*.json against the schemas (python3-vt has jsonschema)."""
import glob
import json
import sys

import jsonschema

ok = True
jsonschema.validate(json.load(open("/verif/MANIFEST.json")), json.load(open("/root/.vp/MANIFEST.schema.json")))
print("MANIFEST.json ok")
schema = json.load(open("/root/.vp/EVIDENCE.schema.json"))
for path in sorted(glob.glob("/verif/evidence/C*.json")):
    try:
        jsonschema.validate(json.load(open(path)), schema)
        print(path, "ok")
    except Exception as err:
        ok = False
        print(path, "INVALID", str(err)[:300])
sys.exit(0 if ok else 1)
